//! C11 (second round) finding 8: printing a multipath descriptor key whose derivation paths have
//! different lengths panics.
//!
//! `DerivPaths::new(Vec<DerivationPath>)` is the public constructor of the path list of a
//! `DescriptorMultiXKey`; it only requires the list to be non-empty ("Create a non empty
//! derivation paths list").  All fields of `DescriptorMultiXKey` are public.  `Display` (and with
//! it `Descriptor::to_string`, checksum computation, `WalletPolicy` rendering, ...) goes through
//! `fmt_derivation_paths`, which indexes `paths[1][i]` for every step `i` of `paths[0]`.
//!
//! Property-level expectation (C11): an object the public constructors hand out can be printed;
//! if the combination is not representable the constructor returns `None`/`Err`.

use std::panic::{catch_unwind, AssertUnwindSafe};
use std::str::FromStr;

use miniscript::bitcoin::bip32::{DerivationPath, Xpub};
use miniscript::descriptor::{DerivPaths, DescriptorMultiXKey, Wildcard};
use miniscript::{Descriptor, DescriptorPublicKey};

const XPUB: &str = "xpub661MyMwAqRbcFtXgS5sYJABqqG9YLmC4Q1Rdap9gSE8NqtwybGhePY2gZ29ESFjqJoCu1Rupje8YtGqsefD265TMg7usUDFdp6W1EGMcet8";

fn panic_msg(e: Box<dyn std::any::Any + Send>) -> String {
    e.downcast_ref::<String>()
        .cloned()
        .or_else(|| e.downcast_ref::<&str>().map(|s| s.to_string()))
        .unwrap_or_default()
}

#[test]
fn multipath_key_with_paths_of_different_length_must_be_refused_or_printable() {
    let paths = vec![
        DerivationPath::from_str("m/0/1").unwrap(),
        DerivationPath::from_str("m/2").unwrap(),
    ];
    let paths = match DerivPaths::new(paths) {
        None => return, // refusing the list is fine
        Some(p) => p,
    };
    let key = DescriptorPublicKey::MultiXPub(DescriptorMultiXKey {
        origin: None,
        xkey: Xpub::from_str(XPUB).unwrap(),
        derivation_paths: paths,
        wildcard: Wildcard::Unhardened,
    });
    // every other accessor works
    assert_eq!(key.full_derivation_paths().len(), 2);
    assert_eq!(key.clone().into_single_keys().len(), 2);

    let r = catch_unwind(AssertUnwindSafe(|| key.to_string()));
    if let Err(e) = r {
        panic!("C11 violated: DescriptorPublicKey::to_string panicked: {}", panic_msg(e));
    }
    let desc = Descriptor::new_wpkh(key).expect("multipath xpubs are allowed in wpkh");
    let r = catch_unwind(AssertUnwindSafe(|| desc.to_string()));
    if let Err(e) = r {
        panic!("C11 violated: Descriptor::to_string panicked: {}", panic_msg(e));
    }
}
