//! C11 (second round) finding 5: `Concrete::compile_tr` panics on a 1.6 kB policy text.
//!
//! NOTE: the policy compiler lives behind the crate feature `compiler`; run this demo with
//!   CARGO_TARGET_DIR=/tmp/wt/C11/target cargo test --offline --features compiler --test audit_5
//! (without the feature the file compiles to an empty test binary).
//!
//! The policy is a plain disjunction chain `or(pk(K0),or(pk(K1),or(... pk(K130))))` with the
//! default odds (1@1 everywhere).  The taproot compiler turns every disjunct into a leaf with
//! probability 1/2, 1/4, 1/8, ... and builds a Huffman tree over them; for such a geometric
//! distribution the Huffman tree is a chain, so with 130 leaves it is 129 levels deep, which is
//! more than the 128 levels BIP341 allows.  `TapTree::combine` reports that as
//! `Err(TapTreeDepthError)` and `with_huffman_tree` does
//! `.expect("huffman tree cannot produce depth > 128 given sane weights")`.
//!
//! Property-level expectation (C11): text given to the policy parser and then to the compiler
//! never panics; a policy that cannot be compiled is reported as `Err(CompilerError)`.
#![cfg(feature = "compiler")]

use std::panic::{catch_unwind, AssertUnwindSafe};
use std::str::FromStr;

use miniscript::policy::Concrete;

fn panic_msg(e: Box<dyn std::any::Any + Send>) -> String {
    e.downcast_ref::<String>()
        .cloned()
        .or_else(|| e.downcast_ref::<&str>().map(|s| s.to_string()))
        .unwrap_or_default()
}

fn or_chain(n_ors: usize) -> String {
    let mut s = format!("pk(K{})", n_ors);
    for i in (0..n_ors).rev() {
        s = format!("or(pk(K{}),{})", i, s);
    }
    s
}

#[test]
fn compile_tr_must_not_panic_on_a_long_or_chain() {
    let text = or_chain(130);
    assert!(text.len() < 1600);
    let policy = Concrete::<String>::from_str(&text).expect("valid policy, nesting depth 131 < 402");

    let r = catch_unwind(AssertUnwindSafe(|| policy.compile_tr(None).map(|d| d.to_string().len())));
    match r {
        Ok(_either_a_descriptor_or_a_compiler_error) => {}
        Err(e) => panic!(
            "C11 violated: Concrete::compile_tr panicked on a {}-byte policy text instead of \
             returning a descriptor or Err(CompilerError): {}",
            text.len(),
            panic_msg(e)
        ),
    }
}

#[test]
fn compile_tr_with_unspendable_key_must_not_panic_either() {
    let policy = Concrete::<String>::from_str(&or_chain(131)).unwrap();
    let r = catch_unwind(AssertUnwindSafe(|| {
        policy.compile_tr(Some("UNSPENDABLE".to_string())).is_ok()
    }));
    if let Err(e) = r {
        panic!("C11 violated: Concrete::compile_tr(Some(key)) panicked: {}", panic_msg(e));
    }
}

/// Control: one disjunct fewer compiles to a 128-level tree.
#[test]
fn control_129_ors_compile() {
    let policy = Concrete::<String>::from_str(&or_chain(129)).unwrap();
    let desc = policy.compile_tr(None).expect("compiles");
    assert!(desc.to_string().starts_with("tr(K0,"));
}
