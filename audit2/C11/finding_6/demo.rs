//! C11 (second round) finding 6: the policy compiler needs time exponential in the length of a
//! disjunction chain - a 165-byte policy text keeps `Concrete::compile` busy for minutes, a
//! 300-byte one for days.
//!
//! NOTE: the policy compiler lives behind the crate feature `compiler`; run this demo with
//!   CARGO_TARGET_DIR=/tmp/wt/C11/target cargo test --offline --features compiler --test audit_6
//! (without the feature the file compiles to an empty test binary).
//!
//! Input: `or(pk(K0),or(pk(K1),or(pk(K2), ... pk(Kn))))`, default odds.  Measured on the
//! unchanged tree (release profile): n=5 0.16 s, n=10 4.4 s, n=15 152 s - a factor of two per
//! additional key, i.e. about 2^n; n=14 is ~75 s, n=25 about two days, n=40 (490 bytes) longer
//! than a lifetime.  The debug profile is another ~15x slower.
//!
//! Property-level expectation (C11): no input makes the library hang; a policy that is too
//! expensive to compile is refused with an error value (as `compile_tr` already does with
//! `TooManyTapleaves`).  The assertion below gives `compile` 30 seconds for a 165-byte policy.
#![cfg(feature = "compiler")]

use std::str::FromStr;
use std::sync::mpsc;
use std::time::{Duration, Instant};

use miniscript::policy::Concrete;
use miniscript::Segwitv0;

fn or_chain(n_ors: usize) -> String {
    let mut s = format!("pk(K{})", n_ors);
    for i in (0..n_ors).rev() {
        s = format!("or(pk(K{}),{})", i, s);
    }
    s
}

#[test]
fn compile_of_a_165_byte_policy_must_finish() {
    // evidence of the growth rate: one more key doubles the time
    let mut last = None;
    for n in [4usize, 6, 8] {
        let p = Concrete::<String>::from_str(&or_chain(n)).unwrap();
        let t = Instant::now();
        let ms = p.compile::<Segwitv0>().expect("compiles");
        let dt = t.elapsed();
        println!(
            "n = {:2} keys+1, policy {:3} bytes, miniscript {:3} bytes: {:?}{}",
            n,
            or_chain(n).len(),
            ms.to_string().len(),
            dt,
            last.map(|l: Duration| format!("  (x{:.1} for two more keys)", dt.as_secs_f64() / l.as_secs_f64()))
                .unwrap_or_default()
        );
        last = Some(dt);
    }

    let text = or_chain(14);
    assert_eq!(text.len(), 165);
    let policy = Concrete::<String>::from_str(&text).unwrap();
    let (tx, rx) = mpsc::channel();
    std::thread::spawn(move || {
        let t = Instant::now();
        let r = policy.compile::<Segwitv0>().map(|ms| ms.to_string().len());
        let _ = tx.send((r.is_ok(), t.elapsed()));
    });
    let deadline = Duration::from_secs(30);
    match rx.recv_timeout(deadline) {
        Ok((ok, dt)) => println!("compiled (ok = {}) in {:?}", ok, dt),
        Err(_) => panic!(
            "C11 violated: Concrete::compile::<Segwitv0>() was still running after {:?} on the \
             {}-byte policy {}",
            deadline,
            text.len(),
            text
        ),
    }
}
