//! C11 (second round) finding 7: `Liftable::lift` of a concrete policy whose `And`/`Or` node does
//! not have exactly two children panics.
//!
//! `policy::Concrete::And(Vec<..>)` and `Concrete::Or(Vec<..>)` are public enum variants holding a
//! vector; `Concrete::is_valid` documents that "the policy [may contain] non-two argument `and`,
//! `or`", the compiler answers such a policy with `Err(CompilerError::NonBinaryArgAnd/Or)`, and
//! `Display` prints it.  `lift()` however - a function returning `Result` - does
//! `Threshold::new(2, subs).unwrap()` for `And` and `Threshold::new(1, subs).unwrap()` for `Or`.
//!
//! Property-level expectation (C11): a malformed object is reported as an error value, the
//! library does not panic.

use std::panic::{catch_unwind, AssertUnwindSafe};
use std::sync::Arc;

use miniscript::policy::{Concrete, Liftable};

fn panic_msg(e: Box<dyn std::any::Any + Send>) -> String {
    e.downcast_ref::<String>()
        .cloned()
        .or_else(|| e.downcast_ref::<&str>().map(|s| s.to_string()))
        .unwrap_or_default()
}

fn key(s: &str) -> Arc<Concrete<String>> { Arc::new(Concrete::Key(s.to_string())) }

#[test]
fn lift_of_unary_and_must_not_panic() {
    let p: Concrete<String> = Concrete::And(vec![key("A")]);
    assert_eq!(p.to_string(), "and(pk(A))"); // printable
    assert!(p.is_valid().is_ok()); // "valid" in the sense of is_valid()
    let r = catch_unwind(AssertUnwindSafe(|| p.lift().map(|s| s.to_string())));
    if let Err(e) = r {
        panic!("C11 violated: Concrete::And([x]).lift() panicked: {}", panic_msg(e));
    }
}

#[test]
fn lift_of_empty_or_must_not_panic() {
    let p: Concrete<String> = Concrete::Or(vec![]);
    let r = catch_unwind(AssertUnwindSafe(|| p.lift().map(|s| s.to_string())));
    if let Err(e) = r {
        panic!("C11 violated: Concrete::Or([]).lift() panicked: {}", panic_msg(e));
    }
}

/// Control: the binary forms lift.
#[test]
fn control_binary() {
    let p: Concrete<String> = Concrete::And(vec![key("A"), key("B")]);
    assert_eq!(p.lift().unwrap().to_string(), "and(pk(A),pk(B))");
}
