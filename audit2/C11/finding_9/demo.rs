//! C11 (second round) finding 9: `Threshold::from_iter(k, iter)` reserves memory for `k` elements
//! before it validates `k` against the number of elements.
//!
//! `Threshold::<T, 0>` (no maximum) is the type used for `thresh` in policies and miniscripts.
//! `from_iter` computes `min_size = max(k, iter.size_hint().0)` and calls
//! `Vec::with_capacity(min_size)`; only afterwards does `Threshold::new` compare `k` with the
//! real length.  A `k` read from untrusted input therefore decides how much memory is requested:
//! `k = usize::MAX / 8` panics with "capacity overflow", `k = 1 << 40` asks the allocator for
//! 8 TiB (abort on allocation failure, not even a catchable panic).  (`Threshold::new` with the
//! same `k` returns `Err(ThresholdError)`.)
//!
//! Property-level expectation (C11): no input makes the library panic or allocate without bound;
//! `k > n` is reported as `Err(ThresholdError)`.

use std::panic::{catch_unwind, AssertUnwindSafe};

use miniscript::Threshold;

fn panic_msg(e: Box<dyn std::any::Any + Send>) -> String {
    e.downcast_ref::<String>()
        .cloned()
        .or_else(|| e.downcast_ref::<&str>().map(|s| s.to_string()))
        .unwrap_or_default()
}

#[test]
fn from_iter_with_huge_k_must_return_an_error() {
    // control: the other constructor reports the bad k as a value
    assert!(Threshold::<u64, 0>::new(usize::MAX / 8, vec![1, 2, 3]).is_err());

    let r = catch_unwind(AssertUnwindSafe(|| {
        Threshold::<u64, 0>::from_iter(usize::MAX / 8, vec![1u64, 2, 3].into_iter()).is_err()
    }));
    match r {
        Ok(is_err) => assert!(is_err, "k > n must be an error"),
        Err(e) => panic!(
            "C11 violated: Threshold::from_iter(k = usize::MAX/8, 3 elements) panicked instead of \
             returning Err(ThresholdError): {}",
            panic_msg(e)
        ),
    }
}
