//! C11 (second round) finding 4: a `wsh(multi_a(..))` descriptor can be built through the typed
//! constructors, and planning / satisfying it panics.
//!
//! `multi_a` (OP_CHECKSIGADD) only exists in tapscript (BIP342); in a P2WSH script OP_CHECKSIGADD
//! is an undefined opcode (Core: SCRIPT_ERR_BAD_OPCODE), so `wsh(multi_a(..))` can never be spent
//! and both the string parser and `Miniscript::from_ast` refuse it (`MultiANotAllowed`).
//! `Miniscript::multi_a(thresh)` however is generic over the context and performs no check, and
//! `Descriptor::new_wsh` ("Errors when miniscript exceeds resource limits ... or does not type
//! check at the top level") only looks at the top-level type.  The descriptor it returns makes
//! the planner and the satisfier run into
//! `expect("leaf_hash is present when Ctx = Tap, which must be true if multi_a is present")`.
//!
//! Property-level expectation (C11): asset sets given to the planner and satisfiers given to
//! `get_satisfaction` never make the library panic; an unusable descriptor is refused with an
//! error value when it is constructed.

use std::panic::{catch_unwind, AssertUnwindSafe};
use std::str::FromStr;

use miniscript::plan::Assets;
use miniscript::{
    DefiniteDescriptorKey, Descriptor, DescriptorPublicKey, Miniscript, Segwitv0, Terminal, Threshold,
};

const K1: &str = "02e4dbb4350d84eabec1d67e40a398a78a8e6d719d86914393fca83b88dbe927af";
const K2: &str = "027a9fde3d4bbf403f6297519e9c94eafcd016b8668956ffc9e9746439477a28dd";

fn panic_msg(e: Box<dyn std::any::Any + Send>) -> String {
    e.downcast_ref::<String>()
        .cloned()
        .or_else(|| e.downcast_ref::<&str>().map(|s| s.to_string()))
        .unwrap_or_default()
}

fn keys() -> Vec<DefiniteDescriptorKey> {
    vec![
        DefiniteDescriptorKey::from_str(K1).unwrap(),
        DefiniteDescriptorKey::from_str(K2).unwrap(),
    ]
}

#[test]
fn planner_must_not_panic_on_wsh_multi_a() {
    // controls: every checked route refuses the fragment in a segwit v0 context
    assert!(Descriptor::<DefiniteDescriptorKey>::from_str(&format!("wsh(multi_a(1,{},{}))", K1, K2))
        .is_err());
    assert!(Miniscript::<DefiniteDescriptorKey, Segwitv0>::from_ast(Terminal::MultiA(
        Threshold::new(1, keys()).unwrap()
    ))
    .is_err());

    // the typed constructor does not
    let ms = Miniscript::<DefiniteDescriptorKey, Segwitv0>::multi_a(Threshold::new(1, keys()).unwrap());
    let desc = match Descriptor::new_wsh(ms) {
        Err(_) => return, // what C11 asks for: the unusable object is refused as a value
        Ok(d) => d,
    };

    let assets = Assets::new().add(
        keys()
            .into_iter()
            .map(|k| k.into_descriptor_public_key())
            .collect::<Vec<DescriptorPublicKey>>(),
    );
    let r = catch_unwind(AssertUnwindSafe(|| desc.clone().into_plan(&assets).is_ok()));
    if let Err(e) = r {
        panic!(
            "C11 violated: Descriptor::new_wsh accepted {} and Descriptor::into_plan(&assets) \
             panicked: {}",
            desc,
            panic_msg(e)
        );
    }
}

#[test]
fn satisfier_must_not_panic_on_wsh_multi_a() {
    let ms = Miniscript::<DefiniteDescriptorKey, Segwitv0>::multi_a(Threshold::new(1, keys()).unwrap());
    let desc = match Descriptor::new_wsh(ms) {
        Err(_) => return,
        Ok(d) => d,
    };
    // the empty satisfier: the expected answer is Err(CouldNotSatisfy)
    let r = catch_unwind(AssertUnwindSafe(|| desc.get_satisfaction(()).is_ok()));
    if let Err(e) = r {
        panic!("C11 violated: Descriptor::get_satisfaction panicked: {}", panic_msg(e));
    }
}
