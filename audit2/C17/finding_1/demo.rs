// Standalone integration test: copy to tests/audit_1.rs and run
//   cd /tmp/wt/C17 && CARGO_TARGET_DIR=/tmp/wt/C17/target cargo test --offline --test audit_1
#![allow(dead_code, unused_imports)]

// ---------------------------------------------------------------------------------------------
// A small, independent Bitcoin Script verifier (consensus rules of Bitcoin Core's interpreter.cpp
// for the opcodes miniscript emits): BIP16 (P2SH), BIP65 (CLTV), BIP66 (strict DER), BIP68/112
// (CSV), BIP141/143 (segwit v0, incl. CLEANSTACK for witness programs), BIP147 (NULLDUMMY),
// BIP341/342 (taproot key and script path, CHECKSIGADD, MINIMALIF).
// It does NOT use the miniscript crate at all.
// ---------------------------------------------------------------------------------------------
mod refinterp {
    use miniscript::bitcoin::hashes::{hash160, ripemd160, sha256, sha256d, Hash};
    use miniscript::bitcoin::opcodes::all::*;
    use miniscript::bitcoin::script::Instruction;
    use miniscript::bitcoin::sighash::{Prevouts, SighashCache, TapSighashType};
    use miniscript::bitcoin::taproot::{ControlBlock, LeafVersion, TapLeafHash};
    use miniscript::bitcoin::{
        secp256k1, Script, ScriptBuf, Transaction, TxOut, XOnlyPublicKey,
    };

    #[derive(Clone, Copy, PartialEq, Eq, Debug)]
    pub enum SigVersion {
        Base,
        WitnessV0,
        Tapscript,
    }

    pub struct Checker<'a> {
        pub tx: &'a Transaction,
        pub idx: usize,
        pub prevouts: &'a [TxOut],
    }

    fn cast_to_bool(v: &[u8]) -> bool {
        for (i, b) in v.iter().enumerate() {
            if *b != 0 {
                // negative zero
                return !(i == v.len() - 1 && *b == 0x80);
            }
        }
        false
    }

    fn num(v: &[u8], max: usize) -> Result<i64, String> {
        if v.len() > max {
            return Err(format!("script number overflow ({} bytes)", v.len()));
        }
        if v.is_empty() {
            return Ok(0);
        }
        let mut r: i64 = 0;
        for (i, b) in v.iter().enumerate() {
            r |= (*b as i64) << (8 * i);
        }
        if v[v.len() - 1] & 0x80 != 0 {
            r &= !(0x80i64 << (8 * (v.len() - 1)));
            r = -r;
        }
        Ok(r)
    }

    fn enc(n: i64) -> Vec<u8> {
        if n == 0 {
            return vec![];
        }
        let neg = n < 0;
        let mut a = n.unsigned_abs();
        let mut r = vec![];
        while a > 0 {
            r.push((a & 0xff) as u8);
            a >>= 8;
        }
        if r[r.len() - 1] & 0x80 != 0 {
            r.push(if neg { 0x80 } else { 0 });
        } else if neg {
            let l = r.len() - 1;
            r[l] |= 0x80;
        }
        r
    }

    impl<'a> Checker<'a> {
        fn check_ecdsa(
            &self,
            sig: &[u8],
            pk: &[u8],
            script_code: &Script,
            sv: SigVersion,
        ) -> Result<bool, String> {
            if sig.is_empty() {
                return Ok(false);
            }
            let (der, ht) = sig.split_at(sig.len() - 1);
            // BIP66: strict DER or the script fails
            let s = secp256k1::ecdsa::Signature::from_der(der)
                .map_err(|e| format!("non-DER signature: {}", e))?;
            let mut s = s;
            s.normalize_s();
            let pk = match secp256k1::PublicKey::from_slice(pk) {
                Ok(pk) => pk,
                Err(_) => return Ok(false),
            };
            if sv == SigVersion::WitnessV0 && pk.serialize().len() != 33 {
                // policy only (WITNESS_PUBKEYTYPE); keep going
            }
            let cache = &mut SighashCache::new(self.tx);
            let msg = match sv {
                SigVersion::Base => {
                    let h = cache
                        .legacy_signature_hash(self.idx, script_code, ht[0] as u32)
                        .map_err(|e| e.to_string())?;
                    secp256k1::Message::from_digest(h.to_byte_array())
                }
                SigVersion::WitnessV0 => {
                    let ty = miniscript::bitcoin::sighash::EcdsaSighashType::from_consensus(
                        ht[0] as u32,
                    );
                    let h = cache
                        .p2wsh_signature_hash(
                            self.idx,
                            script_code,
                            self.prevouts[self.idx].value,
                            ty,
                        )
                        .map_err(|e| e.to_string())?;
                    secp256k1::Message::from_digest(h.to_byte_array())
                }
                SigVersion::Tapscript => unreachable!(),
            };
            let secp = secp256k1::Secp256k1::verification_only();
            Ok(secp.verify_ecdsa(&msg, &s, &pk).is_ok())
        }

        fn check_schnorr(
            &self,
            sig: &[u8],
            pk: &[u8],
            leaf: Option<TapLeafHash>,
        ) -> Result<bool, String> {
            // caller handles the empty signature
            if pk.len() != 32 {
                return Err("unknown pubkey type in tapscript".into());
            }
            let pk = XOnlyPublicKey::from_slice(pk).map_err(|e| e.to_string())?;
            let (raw, ty) = match sig.len() {
                64 => (sig, TapSighashType::Default),
                65 => {
                    if sig[64] == 0 {
                        return Err("explicit SIGHASH_DEFAULT byte".into());
                    }
                    (
                        &sig[..64],
                        TapSighashType::from_consensus_u8(sig[64]).map_err(|e| e.to_string())?,
                    )
                }
                _ => return Err(format!("schnorr signature of {} bytes", sig.len())),
            };
            let s = secp256k1::schnorr::Signature::from_slice(raw).map_err(|e| e.to_string())?;
            let cache = &mut SighashCache::new(self.tx);
            let h = cache
                .taproot_signature_hash(
                    self.idx,
                    &Prevouts::All(self.prevouts),
                    None,
                    leaf.map(|l| (l, 0xffff_ffff)),
                    ty,
                )
                .map_err(|e| e.to_string())?;
            let msg = secp256k1::Message::from_digest(h.to_byte_array());
            let secp = secp256k1::Secp256k1::verification_only();
            if secp.verify_schnorr(&s, &msg, &pk).is_ok() {
                Ok(true)
            } else {
                Err("invalid (non-empty) schnorr signature".into())
            }
        }

        // BIP65
        fn check_locktime(&self, n: i64) -> Result<(), String> {
            if n < 0 {
                return Err("CLTV: negative locktime".into());
            }
            let tx_lt = self.tx.lock_time.to_consensus_u32() as i64;
            const T: i64 = 500_000_000;
            if !((tx_lt < T && n < T) || (tx_lt >= T && n >= T)) {
                return Err(format!("CLTV: unit mismatch (script {}, nLockTime {})", n, tx_lt));
            }
            if n > tx_lt {
                return Err(format!("CLTV: script wants {} > nLockTime {}", n, tx_lt));
            }
            if self.tx.input[self.idx].sequence.0 == 0xffff_ffff {
                return Err("CLTV: input is final (nSequence = 0xffffffff)".into());
            }
            Ok(())
        }

        // BIP112
        fn check_sequence(&self, n: i64) -> Result<(), String> {
            if n < 0 {
                return Err("CSV: negative".into());
            }
            if n & (1 << 31) != 0 {
                return Ok(()); // disable flag in the operand: NOP
            }
            if (self.tx.version.0 as u32) < 2 {
                return Err("CSV: transaction version < 2".into());
            }
            let seq = self.tx.input[self.idx].sequence.0 as i64;
            if seq & (1 << 31) != 0 {
                return Err("CSV: input nSequence has the disable flag".into());
            }
            let mask: i64 = (1 << 22) | 0xffff;
            let (a, b) = (seq & mask, n & mask);
            const F: i64 = 1 << 22;
            if !((a < F && b < F) || (a >= F && b >= F)) {
                return Err(format!("CSV: unit mismatch (script {}, nSequence {})", n, seq));
            }
            if b > a {
                return Err(format!("CSV: script wants {} > nSequence {}", b, a));
            }
            Ok(())
        }

        pub fn eval(
            &self,
            script: &Script,
            stack: &mut Vec<Vec<u8>>,
            sv: SigVersion,
        ) -> Result<(), String> {
            let leaf = if sv == SigVersion::Tapscript {
                Some(TapLeafHash::from_script(script, LeafVersion::TapScript))
            } else {
                None
            };
            let mut alt: Vec<Vec<u8>> = vec![];
            let mut exec: Vec<bool> = vec![];
            macro_rules! pop {
                () => {
                    stack.pop().ok_or_else(|| "pop from empty stack".to_string())?
                };
            }
            for ins in script.instructions() {
                let ins = ins.map_err(|e| e.to_string())?;
                let running = exec.iter().all(|b| *b);
                match ins {
                    Instruction::PushBytes(b) => {
                        if running {
                            stack.push(b.as_bytes().to_vec());
                        }
                    }
                    Instruction::Op(op) => {
                        let code = op.to_u8();
                        // flow control is processed even when not running
                        if op == OP_IF || op == OP_NOTIF {
                            let mut v = false;
                            if running {
                                let top = pop!();
                                if sv == SigVersion::Tapscript
                                    && !(top.is_empty() || top == vec![1u8])
                                {
                                    return Err("MINIMALIF (tapscript consensus)".into());
                                }
                                v = cast_to_bool(&top);
                                if op == OP_NOTIF {
                                    v = !v;
                                }
                            }
                            exec.push(v);
                            continue;
                        }
                        if op == OP_ELSE {
                            let l = exec.len();
                            if l == 0 {
                                return Err("unbalanced ELSE".into());
                            }
                            exec[l - 1] = !exec[l - 1];
                            continue;
                        }
                        if op == OP_ENDIF {
                            exec.pop().ok_or_else(|| "unbalanced ENDIF".to_string())?;
                            continue;
                        }
                        if !running {
                            continue;
                        }
                        if code == 0x4f {
                            stack.push(enc(-1));
                        } else if (0x51..=0x60).contains(&code) {
                            stack.push(enc((code - 0x50) as i64));
                        } else if op == OP_VERIFY {
                            if !cast_to_bool(&pop!()) {
                                return Err("VERIFY failed".into());
                            }
                        } else if op == OP_DUP {
                            let t = stack.last().ok_or("DUP on empty stack")?.clone();
                            stack.push(t);
                        } else if op == OP_IFDUP {
                            let t = stack.last().ok_or("IFDUP on empty stack")?.clone();
                            if cast_to_bool(&t) {
                                stack.push(t);
                            }
                        } else if op == OP_DROP {
                            pop!();
                        } else if op == OP_SWAP {
                            let a = pop!();
                            let b = pop!();
                            stack.push(a);
                            stack.push(b);
                        } else if op == OP_TOALTSTACK {
                            alt.push(pop!());
                        } else if op == OP_FROMALTSTACK {
                            stack.push(alt.pop().ok_or("empty altstack")?);
                        } else if op == OP_SIZE {
                            let l = stack.last().ok_or("SIZE on empty stack")?.len();
                            stack.push(enc(l as i64));
                        } else if op == OP_EQUAL || op == OP_EQUALVERIFY {
                            let a = pop!();
                            let b = pop!();
                            let eq = a == b;
                            if op == OP_EQUALVERIFY {
                                if !eq {
                                    return Err("EQUALVERIFY failed".into());
                                }
                            } else {
                                stack.push(if eq { vec![1] } else { vec![] });
                            }
                        } else if op == OP_0NOTEQUAL {
                            let a = num(&pop!(), 4)?;
                            stack.push(enc((a != 0) as i64));
                        } else if op == OP_NOT {
                            let a = num(&pop!(), 4)?;
                            stack.push(enc((a == 0) as i64));
                        } else if op == OP_BOOLAND
                            || op == OP_BOOLOR
                            || op == OP_ADD
                            || op == OP_NUMEQUAL
                            || op == OP_NUMEQUALVERIFY
                        {
                            let b = num(&pop!(), 4)?;
                            let a = num(&pop!(), 4)?;
                            let r = if op == OP_BOOLAND {
                                (a != 0 && b != 0) as i64
                            } else if op == OP_BOOLOR {
                                (a != 0 || b != 0) as i64
                            } else if op == OP_ADD {
                                a + b
                            } else {
                                (a == b) as i64
                            };
                            if op == OP_NUMEQUALVERIFY {
                                if r == 0 {
                                    return Err("NUMEQUALVERIFY failed".into());
                                }
                            } else {
                                stack.push(enc(r));
                            }
                        } else if op == OP_SHA256 {
                            let a = pop!();
                            stack.push(sha256::Hash::hash(&a).to_byte_array().to_vec());
                        } else if op == OP_HASH256 {
                            let a = pop!();
                            stack.push(sha256d::Hash::hash(&a).to_byte_array().to_vec());
                        } else if op == OP_RIPEMD160 {
                            let a = pop!();
                            stack.push(ripemd160::Hash::hash(&a).to_byte_array().to_vec());
                        } else if op == OP_HASH160 {
                            let a = pop!();
                            stack.push(hash160::Hash::hash(&a).to_byte_array().to_vec());
                        } else if op == OP_CLTV {
                            let n = num(stack.last().ok_or("CLTV on empty stack")?, 5)?;
                            self.check_locktime(n)?;
                        } else if op == OP_CSV {
                            let n = num(stack.last().ok_or("CSV on empty stack")?, 5)?;
                            self.check_sequence(n)?;
                        } else if op == OP_CHECKSIG || op == OP_CHECKSIGVERIFY {
                            let pk = pop!();
                            let sig = pop!();
                            let ok = if sv == SigVersion::Tapscript {
                                if sig.is_empty() {
                                    false
                                } else {
                                    self.check_schnorr(&sig, &pk, leaf)?
                                }
                            } else {
                                self.check_ecdsa(&sig, &pk, script, sv)?
                            };
                            if op == OP_CHECKSIGVERIFY {
                                if !ok {
                                    return Err("CHECKSIGVERIFY failed".into());
                                }
                            } else {
                                stack.push(if ok { vec![1] } else { vec![] });
                            }
                        } else if op == OP_CHECKSIGADD {
                            if sv != SigVersion::Tapscript {
                                return Err("CHECKSIGADD outside tapscript".into());
                            }
                            let pk = pop!();
                            let n = num(&pop!(), 4)?;
                            let sig = pop!();
                            let ok = if sig.is_empty() {
                                false
                            } else {
                                self.check_schnorr(&sig, &pk, leaf)?
                            };
                            stack.push(enc(n + ok as i64));
                        } else if op == OP_CHECKMULTISIG || op == OP_CHECKMULTISIGVERIFY {
                            if sv == SigVersion::Tapscript {
                                return Err("CHECKMULTISIG in tapscript".into());
                            }
                            let n = num(&pop!(), 4)?;
                            if !(0..=20).contains(&n) {
                                return Err("bad pubkey count".into());
                            }
                            let mut pks = vec![];
                            for _ in 0..n {
                                pks.push(pop!());
                            }
                            pks.reverse(); // now in script order
                            let m = num(&pop!(), 4)?;
                            if m < 0 || m > n {
                                return Err("bad sig count".into());
                            }
                            let mut sigs = vec![];
                            for _ in 0..m {
                                sigs.push(pop!());
                            }
                            sigs.reverse(); // now in witness order (first pushed first)
                            let dummy = pop!();
                            if !dummy.is_empty() {
                                return Err("NULLDUMMY".into());
                            }
                            // Core walks from the top; equivalently: sigs must match a
                            // subsequence of the pubkeys in order.
                            let mut ki = 0usize;
                            let mut ok = true;
                            for s in &sigs {
                                let mut matched = false;
                                while ki < pks.len() {
                                    let r = self.check_ecdsa(s, &pks[ki], script, sv)?;
                                    ki += 1;
                                    if r {
                                        matched = true;
                                        break;
                                    }
                                }
                                if !matched {
                                    ok = false;
                                    break;
                                }
                            }
                            if op == OP_CHECKMULTISIGVERIFY {
                                if !ok {
                                    return Err("CHECKMULTISIGVERIFY failed".into());
                                }
                            } else {
                                stack.push(if ok { vec![1] } else { vec![] });
                            }
                        } else {
                            return Err(format!("opcode {:?} not modelled", op));
                        }
                    }
                }
            }
            if !exec.is_empty() {
                return Err("unbalanced conditional".into());
            }
            Ok(())
        }

        fn scriptsig_pushes(&self) -> Result<Vec<Vec<u8>>, String> {
            let mut st = vec![];
            for ins in self.tx.input[self.idx].script_sig.instructions() {
                match ins.map_err(|e| e.to_string())? {
                    Instruction::PushBytes(b) => st.push(b.as_bytes().to_vec()),
                    Instruction::Op(op) => {
                        let c = op.to_u8();
                        if c == 0x4f {
                            st.push(enc(-1))
                        } else if (0x51..=0x60).contains(&c) {
                            st.push(enc((c - 0x50) as i64))
                        } else {
                            return Err("scriptSig is not push-only".into());
                        }
                    }
                }
            }
            Ok(st)
        }

        fn witness_program(
            &self,
            version: u8,
            program: &[u8],
            wit: Vec<Vec<u8>>,
            is_p2sh: bool,
        ) -> Result<(), String> {
            if version == 0 && program.len() == 32 {
                let mut stack = wit;
                let ws = ScriptBuf::from(stack.pop().ok_or("empty witness for P2WSH")?);
                if sha256::Hash::hash(ws.as_bytes()).to_byte_array()[..] != program[..] {
                    return Err("witness script hash mismatch".into());
                }
                self.eval(&ws, &mut stack, SigVersion::WitnessV0)?;
                if stack.len() != 1 {
                    return Err(format!("CLEANSTACK: {} elements left", stack.len()));
                }
                if !cast_to_bool(&stack[0]) {
                    return Err("script evaluated to false".into());
                }
                Ok(())
            } else if version == 0 && program.len() == 20 {
                if wit.len() != 2 {
                    return Err("P2WPKH needs exactly 2 witness elements".into());
                }
                let code = ScriptBuf::new_p2pkh(
                    &miniscript::bitcoin::PubkeyHash::from_slice(program).unwrap(),
                );
                let mut stack = wit;
                self.eval(&code, &mut stack, SigVersion::WitnessV0)?;
                if stack.len() != 1 || !cast_to_bool(&stack[0]) {
                    return Err("P2WPKH failed".into());
                }
                Ok(())
            } else if version == 1 && program.len() == 32 && !is_p2sh {
                let mut stack = wit;
                if stack.is_empty() {
                    return Err("empty taproot witness".into());
                }
                if stack.len() >= 2 && stack.last().unwrap().first() == Some(&0x50) {
                    return Err("annex not modelled".into());
                }
                if stack.len() == 1 {
                    let sig = stack.pop().unwrap();
                    return self.check_schnorr(&sig, program, None).and_then(|ok| {
                        if ok {
                            Ok(())
                        } else {
                            Err("key path signature invalid".into())
                        }
                    });
                }
                let cb = stack.pop().unwrap();
                let script = ScriptBuf::from(stack.pop().unwrap());
                let cb = ControlBlock::decode(&cb).map_err(|e| e.to_string())?;
                let secp = secp256k1::Secp256k1::verification_only();
                let out = XOnlyPublicKey::from_slice(program).map_err(|e| e.to_string())?;
                if !cb.verify_taproot_commitment(&secp, out, &script) {
                    return Err("taproot commitment mismatch".into());
                }
                if cb.leaf_version != LeafVersion::TapScript {
                    return Err("unknown leaf version".into());
                }
                self.eval(&script, &mut stack, SigVersion::Tapscript)?;
                if stack.len() != 1 {
                    return Err(format!("CLEANSTACK: {} elements left", stack.len()));
                }
                if !cast_to_bool(&stack[0]) {
                    return Err("script evaluated to false".into());
                }
                Ok(())
            } else {
                Err("unknown witness program".into())
            }
        }

        /// VerifyScript for input `idx`.
        pub fn verify(&self) -> Result<(), String> {
            let spk = &self.prevouts[self.idx].script_pubkey;
            let txin = &self.tx.input[self.idx];
            let wit: Vec<Vec<u8>> = txin.witness.iter().map(|x| x.to_vec()).collect();
            if let Some(v) = spk.witness_version() {
                if !txin.script_sig.is_empty() {
                    return Err("native witness program with non-empty scriptSig".into());
                }
                let b = spk.as_bytes();
                return self.witness_program(v.to_num(), &b[2..], wit, false);
            }
            let mut stack = self.scriptsig_pushes()?;
            if spk.is_p2sh() {
                let copy = stack.clone();
                self.eval(spk, &mut stack, SigVersion::Base)?;
                if stack.is_empty() || !cast_to_bool(stack.last().unwrap()) {
                    return Err("P2SH hash mismatch".into());
                }
                let mut stack = copy;
                let redeem = ScriptBuf::from(stack.pop().ok_or("no redeemScript")?);
                if let Some(v) = redeem.witness_version() {
                    if !stack.is_empty() {
                        return Err("P2SH-witness scriptSig must be exactly the program push".into());
                    }
                    // and must be a single canonical push
                    let mut exp = miniscript::bitcoin::script::Builder::new();
                    exp = exp.push_slice(
                        <&miniscript::bitcoin::script::PushBytes>::try_from(redeem.as_bytes())
                            .unwrap(),
                    );
                    if exp.into_script() != txin.script_sig {
                        return Err("P2SH-witness scriptSig malleated".into());
                    }
                    let b = redeem.as_bytes();
                    return self.witness_program(v.to_num(), &b[2..], wit, true);
                }
                if !wit.is_empty() {
                    return Err("unexpected witness".into());
                }
                self.eval(&redeem, &mut stack, SigVersion::Base)?;
                if stack.is_empty() || !cast_to_bool(stack.last().unwrap()) {
                    return Err("redeemScript evaluated to false".into());
                }
                return Ok(());
            }
            if !wit.is_empty() {
                return Err("unexpected witness".into());
            }
            self.eval(spk, &mut stack, SigVersion::Base)?;
            if stack.is_empty() || !cast_to_bool(stack.last().unwrap()) {
                return Err("scriptPubKey evaluated to false".into());
            }
            Ok(())
        }
    }
}

// ---------------------------------------------------------------------------------------------
// C17 (second round) finding 1
//
// `Descriptor::new_sh_sortedmulti` (doc: "Errors when miniscript exceeds resource limits under
// p2sh context") builds P2SH descriptors whose redeemScript is larger than 520 bytes.  Such an
// output cannot be spent by anybody (BIP16: the redeemScript is pushed by the scriptSig, and a
// push of more than MAX_SCRIPT_ELEMENT_SIZE = 520 bytes makes script evaluation fail).  For
// these descriptors `into_plan` / `into_plan_mall` nevertheless return a plan (with sizes), and
// completing the plan (`Plan::satisfy`) as well as the satisfier itself (`get_satisfaction`)
// panic.
// ---------------------------------------------------------------------------------------------
use miniscript::bitcoin::hashes::Hash as _;
use miniscript::bitcoin::sighash::SighashCache;
use miniscript::bitcoin::{
    absolute, transaction, Amount, OutPoint, ScriptBuf, Sequence, Transaction, TxIn, TxOut, Witness,
};
use miniscript::bitcoin::{self, secp256k1};
use miniscript::plan::Assets;
use miniscript::{DefiniteDescriptorKey, Descriptor, DescriptorPublicKey, Threshold};
use std::collections::BTreeMap;
use std::str::FromStr;

/// consensus: interpreter.cpp, `if (vchPushValue.size() > MAX_SCRIPT_ELEMENT_SIZE) return
/// set_error(serror, SCRIPT_ERR_PUSH_SIZE);`
const MAX_SCRIPT_ELEMENT_SIZE: usize = 520;

struct Case {
    desc: Descriptor<DefiniteDescriptorKey>,
    assets: Assets,
    sks: Vec<secp256k1::SecretKey>,
    keys: Vec<DefiniteDescriptorKey>,
}

fn case(n: usize, uncompressed: bool) -> Case {
    let secp = secp256k1::Secp256k1::new();
    let mut sks = vec![];
    let mut keys = vec![];
    let mut assets = Assets::new();
    for i in 0..n {
        let mut b = [0x11u8; 32];
        b[31] = i as u8 + 1;
        let sk = secp256k1::SecretKey::from_slice(&b).unwrap();
        let mut pk = bitcoin::PublicKey::new(secp256k1::PublicKey::from_secret_key(&secp, &sk));
        pk.compressed = !uncompressed;
        sks.push(sk);
        keys.push(DefiniteDescriptorKey::from_str(&pk.to_string()).unwrap());
        assets = assets.add(DescriptorPublicKey::from_str(&pk.to_string()).unwrap());
    }
    let thresh = Threshold::new(1, keys.clone()).unwrap();
    let desc = Descriptor::new_sh_sortedmulti(thresh)
        .expect("(the constructor accepts it; see the test `constructor_...`)");
    Case { desc, assets, sks, keys }
}

fn spending_tx() -> Transaction {
    Transaction {
        version: transaction::Version::TWO,
        lock_time: absolute::LockTime::ZERO,
        input: vec![TxIn {
            previous_output: OutPoint { txid: bitcoin::Txid::all_zeros(), vout: 0 },
            script_sig: ScriptBuf::new(),
            sequence: Sequence::MAX,
            witness: Witness::new(),
        }],
        output: vec![TxOut {
            value: Amount::from_sat(90_000),
            script_pubkey: ScriptBuf::from_bytes(vec![0x51]),
        }],
    }
}

/// every key signs (legacy sighash over the redeemScript): the satisfier that stands behind
/// `Assets` = all keys
fn all_signatures(c: &Case, tx: &Transaction) -> BTreeMap<DefiniteDescriptorKey, bitcoin::ecdsa::Signature> {
    let secp = secp256k1::Secp256k1::new();
    let code = c.desc.script_code().unwrap();
    let cache = SighashCache::new(tx);
    let h = cache.legacy_signature_hash(0, &code, 1).unwrap();
    let msg = secp256k1::Message::from_digest(h.to_byte_array());
    c.keys
        .iter()
        .zip(c.sks.iter())
        .map(|(k, sk)| {
            (k.clone(), bitcoin::ecdsa::Signature::sighash_all(secp.sign_ecdsa(&msg, sk)))
        })
        .collect()
}

/// Property level check: a plan may exist only if the satisfier succeeds, completing it must give
/// that satisfaction, and the result must be a valid spend.
fn check(n: usize, uncompressed: bool) -> Result<(), String> {
    let c = case(n, uncompressed);
    let redeem = c.desc.explicit_script().unwrap();
    let spendable = redeem.len() <= MAX_SCRIPT_ELEMENT_SIZE;
    for mall in [false, true] {
        let plan = if mall {
            c.desc.clone().into_plan_mall(&c.assets)
        } else {
            c.desc.clone().into_plan(&c.assets)
        };
        let plan = match plan {
            Ok(p) => p,
            Err(_) if !spendable => continue, // fine: nothing to plan for an unspendable output
            Err(_) => return Err("no plan although every key is available".into()),
        };
        let mut tx = spending_tx();
        let sigs = all_signatures(&c, &tx);
        let completed =
            std::panic::catch_unwind(std::panic::AssertUnwindSafe(|| plan.satisfy(&sigs)));
        let satisfier = std::panic::catch_unwind(std::panic::AssertUnwindSafe(|| {
            if mall {
                c.desc.get_satisfaction_mall(&sigs)
            } else {
                c.desc.get_satisfaction(&sigs)
            }
        }));
        let head = format!(
            "sh(sortedmulti(1, {} {} keys)), redeemScript {} bytes, mall={}: a plan exists \
             (scriptsig_size {} bytes, satisfaction_weight {})",
            n,
            if uncompressed { "uncompressed" } else { "compressed" },
            redeem.len(),
            mall,
            plan.scriptsig_size(),
            plan.satisfaction_weight()
        );
        let (wit, ss) = match completed {
            Err(_) => {
                return Err(format!(
                    "{}, but completing it PANICS (get_satisfaction: {})",
                    head,
                    match satisfier {
                        Err(_) => "panics as well".to_string(),
                        Ok(r) => format!("{:?}", r.map(|_| ())),
                    }
                ))
            }
            Ok(Err(e)) => return Err(format!("{}, but Plan::satisfy fails: {}", head, e)),
            Ok(Ok(x)) => x,
        };
        // completing the plan is what the satisfier yields
        match satisfier {
            Ok(Ok(s)) if s == (wit.clone(), ss.clone()) => {}
            _ => return Err(format!("{}, but it is not the satisfier's satisfaction", head)),
        }
        tx.input[0].script_sig = ss;
        tx.input[0].witness = Witness::from_slice(&wit);
        let prevouts =
            vec![TxOut { value: Amount::from_sat(100_000), script_pubkey: c.desc.script_pubkey() }];
        // consensus push size limit (the reference interpreter below works on decoded pushes)
        for ins in tx.input[0].script_sig.instructions() {
            if let Ok(bitcoin::script::Instruction::PushBytes(b)) = ins {
                if b.len() > MAX_SCRIPT_ELEMENT_SIZE {
                    return Err(format!("{}, but the spend is invalid: SCRIPT_ERR_PUSH_SIZE", head));
                }
            }
        }
        refinterp::Checker { tx: &tx, idx: 0, prevouts: &prevouts }
            .verify()
            .map_err(|e| format!("{}, but the spend is invalid: {}", head, e))?;
    }
    Ok(())
}

// ----- the violation ---------------------------------------------------------------------------

#[test]
fn plan_for_sh_sortedmulti_of_16_compressed_keys_is_completable_and_valid() {
    // redeemScript: 1 + 16 * 34 + 1 + 1 = 547 bytes
    if let Err(e) = check(16, false) {
        panic!("C17 violated: {}", e);
    }
}

#[test]
fn plan_for_sh_sortedmulti_of_20_compressed_keys_is_completable_and_valid() {
    if let Err(e) = check(20, false) {
        panic!("C17 violated: {}", e);
    }
}

#[test]
fn plan_for_sh_sortedmulti_of_8_uncompressed_keys_is_completable_and_valid() {
    // redeemScript: 1 + 8 * 66 + 1 + 1 = 531 bytes
    if let Err(e) = check(8, true) {
        panic!("C17 violated: {}", e);
    }
}

#[test]
fn constructor_refuses_what_the_parser_refuses() {
    // root cause: the documented "Errors when miniscript exceeds resource limits under p2sh
    // context" does not happen; the parser refuses the very same descriptor.
    let c = case(16, false);
    let s = format!("{:#}", c.desc);
    let parsed = Descriptor::<DefiniteDescriptorKey>::from_str(&s);
    assert!(
        parsed.is_ok(),
        "Descriptor::new_sh_sortedmulti built `{}...` ({} byte redeemScript), which the parser \
         refuses: {}",
        &s[..40],
        c.desc.explicit_script().unwrap().len(),
        parsed.unwrap_err()
    );
}

// ----- controls (pass) ---------------------------------------------------------------------------

#[test]
fn control_15_compressed_keys() {
    // 1 + 15 * 34 + 2 = 513 bytes: spendable; plan, completion and satisfier agree, spend valid
    check(15, false).unwrap();
}

#[test]
fn control_7_uncompressed_keys() {
    // 1 + 7 * 66 + 2 = 465 bytes
    check(7, true).unwrap();
}
