//! C02 / audit2 finding 1: a PSBT taproot input that carries a valid key-path signature
//! (`tap_key_sig`) is reported as unsatisfiable unless the optional `tap_internal_key` field is
//! also present - both by the finalizer and by `Descriptor::get_satisfaction(PsbtInputSatisfier)`,
//! although in the latter case the descriptor itself supplies the internal key.
use std::str::FromStr;

use miniscript::bitcoin::hashes::Hash;
use miniscript::bitcoin::key::TapTweak;
use miniscript::bitcoin::psbt::Psbt;
use miniscript::bitcoin::sighash::{Prevouts, SighashCache};
use miniscript::bitcoin::{
    self, absolute, secp256k1, transaction, Amount, OutPoint, ScriptBuf, Sequence, TapSighashType,
    Transaction, TxIn, TxOut, Txid, Witness, XOnlyPublicKey,
};
use miniscript::psbt::{PsbtExt, PsbtInputSatisfier};
use miniscript::Descriptor;

struct Fixture {
    desc: Descriptor<XOnlyPublicKey>,
    psbt: Psbt,
    sig: bitcoin::taproot::Signature,
    internal: XOnlyPublicKey,
}

/// `tr(I)` and `tr(I,pk(B))`: the caller holds the key-path signature of (tweaked) I only.
fn fixture(with_tree: bool) -> Fixture {
    let secp = secp256k1::Secp256k1::new();
    let kp = secp256k1::Keypair::from_seckey_slice(&secp, &[0x71; 32]).unwrap();
    let (internal, _) = XOnlyPublicKey::from_keypair(&kp);
    let other = secp256k1::Keypair::from_seckey_slice(&secp, &[0x72; 32]).unwrap();
    let (b, _) = XOnlyPublicKey::from_keypair(&other);
    let s = if with_tree { format!("tr({},pk({}))", internal, b) } else { format!("tr({})", internal) };
    let desc = Descriptor::<XOnlyPublicKey>::from_str(&s).unwrap(); // from_str applies the default sanity rules
    let merkle_root = match &desc {
        Descriptor::Tr(tr) => tr.spend_info().merkle_root(),
        _ => unreachable!(),
    };

    let prevout = TxOut { value: Amount::from_sat(100_000), script_pubkey: desc.script_pubkey() };
    let tx = Transaction {
        version: transaction::Version::TWO,
        lock_time: absolute::LockTime::ZERO,
        input: vec![TxIn {
            previous_output: OutPoint { txid: Txid::all_zeros(), vout: 0 },
            script_sig: ScriptBuf::new(),
            sequence: Sequence::MAX,
            witness: Witness::new(),
        }],
        output: vec![TxOut { value: Amount::from_sat(99_000), script_pubkey: ScriptBuf::new() }],
    };

    // BIP341 key path: sign the key-spend sighash with the tweaked internal key.
    let sighash = SighashCache::new(&tx)
        .taproot_key_spend_signature_hash(0, &Prevouts::All(&[prevout.clone()]), TapSighashType::Default)
        .unwrap();
    let msg = secp256k1::Message::from_digest(sighash.to_byte_array());
    let tweaked = kp.tap_tweak(&secp, merkle_root).to_keypair();
    let sig = bitcoin::taproot::Signature {
        signature: secp.sign_schnorr_no_aux_rand(&msg, &tweaked),
        sighash_type: TapSighashType::Default,
    };

    // Independent check (BIP341, "key path spending"): the scriptPubKey is OP_1 <32-byte q>, the
    // witness has exactly one element (no annex), and that element is a valid BIP340 signature of
    // the key-spend sighash under q. Nothing else is evaluated for a key-path spend.
    let spk = prevout.script_pubkey.as_bytes();
    assert!(spk.len() == 34 && spk[0] == 0x51 && spk[1] == 0x20);
    let q = XOnlyPublicKey::from_slice(&spk[2..]).unwrap();
    secp.verify_schnorr(&sig.signature, &msg, &q)
        .expect("the witness [sig] is a valid BIP341 key-path spend");

    let mut psbt = Psbt::from_unsigned_tx(tx).unwrap();
    psbt.inputs[0].witness_utxo = Some(prevout);
    // everything a finalizer needs for the key path (BIP371): the signature
    psbt.inputs[0].tap_key_sig = Some(sig);
    Fixture { desc, psbt, sig, internal }
}

#[test]
fn control_with_internal_key_field() {
    let secp = secp256k1::Secp256k1::new();
    for with_tree in [false, true] {
        let Fixture { mut psbt, sig, internal, .. } = fixture(with_tree);
        psbt.inputs[0].tap_internal_key = Some(internal);
        psbt.finalize_mut(&secp).expect("finalizes when the optional field is present");
        assert_eq!(psbt.inputs[0].final_script_witness.as_ref().unwrap().to_vec(), vec![sig.to_vec()]);
    }
}

#[test]
fn finalizer_uses_key_path_signature() {
    let secp = secp256k1::Secp256k1::new();
    let mut failures = vec![];
    for with_tree in [false, true] {
        for mall in [false, true] {
            let Fixture { mut psbt, sig, .. } = fixture(with_tree);
            let res = if mall { psbt.finalize_mall_mut(&secp) } else { psbt.finalize_mut(&secp) };
            if res.is_err() {
                failures.push(format!("tree={} malleable={}: finalizer says {:?}", with_tree, mall, res));
                continue;
            }
            assert_eq!(psbt.inputs[0].final_script_witness.as_ref().unwrap().to_vec(), vec![sig.to_vec()]);
        }
    }
    // C02: a spend built only from the caller's signature exists (verified in `fixture`),
    // so the library must not report the input as unsatisfiable.
    assert!(failures.is_empty(), "C02 violated, valid key-path signature present but:\n  {}", failures.join("\n  "));
}

#[test]
fn descriptor_satisfier_uses_key_path_signature() {
    for with_tree in [false, true] {
        let Fixture { desc, psbt, sig, .. } = fixture(with_tree);
        // Here the descriptor itself names the internal key; the PSBT only has to deliver the signature.
        let sat = PsbtInputSatisfier::new(&psbt, 0);
        let res = desc.get_satisfaction_mall(&sat);
        assert!(
            res.is_ok(),
            "C02 violated (tree={}): malleable-mode satisfier finds nothing ({:?}) although the PSBT holds the key-path signature",
            with_tree, res
        );
        assert_eq!(res.unwrap().0, vec![sig.to_vec()]);
        let res = desc.get_satisfaction(&sat);
        assert!(res.is_ok(), "C02 violated (tree={}): non-malleable satisfier: {:?}", with_tree, res);
    }
}
