//! C02 / audit2 finding 5: the (non-deprecated) malleable-mode finalizer `miniscript::psbt::finalize_mall`
//! refuses every PSBT that contains a taproot input whose `PSBT_IN_SIGHASH_TYPE` is explicitly
//! `SIGHASH_DEFAULT` (0x00) - the standard taproot sighash type - with `NonStandardSighashType(0)`,
//! although the input carries a valid signature and finalizes through `PsbtExt::finalize_mall_mut`.
use std::str::FromStr;

use miniscript::bitcoin::hashes::Hash;
use miniscript::bitcoin::key::TapTweak;
use miniscript::bitcoin::psbt::{Psbt, PsbtSighashType};
use miniscript::bitcoin::sighash::{Prevouts, SighashCache};
use miniscript::bitcoin::taproot::{LeafVersion, TapLeafHash};
use miniscript::bitcoin::{
    self, absolute, secp256k1, transaction, Amount, OutPoint, ScriptBuf, Sequence, TapSighashType,
    Transaction, TxIn, TxOut, Txid, Witness, XOnlyPublicKey,
};
use miniscript::psbt::{PsbtExt, PsbtInputExt};
use miniscript::{DefiniteDescriptorKey, Descriptor};

/// `tr(I,pk(B))`, updated by the library's own updater; signed either by the key path or by B's leaf
/// with SIGHASH_DEFAULT (64-byte signatures).
fn signed_psbt(key_path: bool, sighash_field: Option<PsbtSighashType>) -> (Psbt, Vec<Vec<u8>>) {
    let secp = secp256k1::Secp256k1::new();
    let kp_i = secp256k1::Keypair::from_seckey_slice(&secp, &[0x51; 32]).unwrap();
    let kp_b = secp256k1::Keypair::from_seckey_slice(&secp, &[0x52; 32]).unwrap();
    let (xi, _) = XOnlyPublicKey::from_keypair(&kp_i);
    let (xb, _) = XOnlyPublicKey::from_keypair(&kp_b);
    let desc = Descriptor::<DefiniteDescriptorKey>::from_str(&format!("tr({},pk({}))", xi, xb)).unwrap();
    let prevout = TxOut { value: Amount::from_sat(100_000), script_pubkey: desc.script_pubkey() };
    let q = XOnlyPublicKey::from_slice(&prevout.script_pubkey.as_bytes()[2..]).unwrap();
    let tx = Transaction {
        version: transaction::Version::TWO,
        lock_time: absolute::LockTime::ZERO,
        input: vec![TxIn {
            previous_output: OutPoint { txid: Txid::all_zeros(), vout: 0 },
            script_sig: ScriptBuf::new(),
            sequence: Sequence::MAX,
            witness: Witness::new(),
        }],
        output: vec![TxOut { value: Amount::from_sat(99_000), script_pubkey: ScriptBuf::new() }],
    };
    let mut psbt = Psbt::from_unsigned_tx(tx.clone()).unwrap();
    psbt.inputs[0].witness_utxo = Some(prevout.clone());
    psbt.inputs[0].update_with_descriptor_unchecked(&desc).unwrap();
    psbt.inputs[0].sighash_type = sighash_field;

    let expected;
    if key_path {
        let sighash = SighashCache::new(&tx)
            .taproot_key_spend_signature_hash(0, &Prevouts::All(&[prevout]), TapSighashType::Default)
            .unwrap();
        let msg = secp256k1::Message::from_digest(sighash.to_byte_array());
        let tweaked = kp_i.tap_tweak(&secp, psbt.inputs[0].tap_merkle_root).to_keypair();
        let sig = secp.sign_schnorr_no_aux_rand(&msg, &tweaked);
        // BIP341 key path: 64-byte signature = SIGHASH_DEFAULT, verified against the output key
        secp.verify_schnorr(&sig, &msg, &q).unwrap();
        let sig = bitcoin::taproot::Signature { signature: sig, sighash_type: TapSighashType::Default };
        psbt.inputs[0].tap_key_sig = Some(sig);
        expected = vec![sig.to_vec()];
    } else {
        let (cb, (script, ver)) = psbt.inputs[0].tap_scripts.iter().next().map(|(c, s)| (c.clone(), s.clone())).unwrap();
        assert_eq!(ver, LeafVersion::TapScript);
        let lh = TapLeafHash::from_script(&script, ver);
        let sighash = SighashCache::new(&tx)
            .taproot_script_spend_signature_hash(0, &Prevouts::All(&[prevout]), lh, TapSighashType::Default)
            .unwrap();
        let msg = secp256k1::Message::from_digest(sighash.to_byte_array());
        let sig = secp.sign_schnorr_no_aux_rand(&msg, &kp_b);
        // BIP341/342 script path: control block commits <B> CHECKSIG to q; signature valid under B
        assert!(cb.verify_taproot_commitment(&secp, q, &script));
        assert_eq!(script.as_bytes()[0], 32);
        assert_eq!(&script.as_bytes()[1..33], &xb.serialize()[..]);
        assert_eq!(&script.as_bytes()[33..], &[0xac]);
        secp.verify_schnorr(&sig, &msg, &xb).unwrap();
        let sig = bitcoin::taproot::Signature { signature: sig, sighash_type: TapSighashType::Default };
        psbt.inputs[0].tap_script_sigs.insert((xb, lh), sig);
        expected = vec![sig.to_vec(), script.to_bytes(), cb.serialize()];
    }
    assert_eq!(expected[0].len(), 64);
    (psbt, expected)
}

#[test]
fn control_field_absent() {
    let secp = secp256k1::Secp256k1::new();
    for key_path in [true, false] {
        let (mut psbt, expected) = signed_psbt(key_path, None);
        miniscript::psbt::finalize_mall(&mut psbt, &secp).unwrap();
        assert_eq!(psbt.inputs[0].final_script_witness.as_ref().unwrap().to_vec(), expected);
    }
}

#[test]
fn control_trait_method_accepts_explicit_default() {
    let secp = secp256k1::Secp256k1::new();
    for key_path in [true, false] {
        let (mut psbt, expected) = signed_psbt(key_path, Some(TapSighashType::Default.into()));
        psbt.finalize_mall_mut(&secp).unwrap();
        assert_eq!(psbt.inputs[0].final_script_witness.as_ref().unwrap().to_vec(), expected);
    }
}

#[test]
fn finalize_mall_with_explicit_sighash_default() {
    let secp = secp256k1::Secp256k1::new();
    for key_path in [true, false] {
        // PSBT_IN_SIGHASH_TYPE = 0x00000000: "sign with SIGHASH_DEFAULT" (BIP341 hash_type 0x00, BIP371)
        let (mut psbt, expected) = signed_psbt(key_path, Some(TapSighashType::Default.into()));
        let res = miniscript::psbt::finalize_mall(&mut psbt, &secp);
        assert!(
            res.is_ok(),
            "C02 violated (key_path={}): a valid SIGHASH_DEFAULT signature is present, the malleable-mode \
             finalizer says {:?}",
            key_path, res
        );
        assert_eq!(psbt.inputs[0].final_script_witness.as_ref().unwrap().to_vec(), expected);
    }
}
