//! C02 / audit2 finding 2: in a multi-input PSBT an input whose own data is complete (UTXO, script,
//! signature) cannot be finalized as long as ANY OTHER input lacks UTXO information, although for
//! legacy and segwit-v0 inputs neither the script execution nor the signature hash depends on the
//! other inputs' previous outputs.
use std::str::FromStr;

use miniscript::bitcoin::hashes::{hash160, sha256, Hash};
use miniscript::bitcoin::psbt::Psbt;
use miniscript::bitcoin::sighash::SighashCache;
use miniscript::bitcoin::{
    self, absolute, secp256k1, transaction, Amount, EcdsaSighashType, OutPoint, ScriptBuf, Sequence,
    Transaction, TxIn, TxOut, Witness,
};
use miniscript::psbt::{PsbtExt, PsbtInputSatisfier};
use miniscript::Descriptor;

fn key(b: u8) -> (secp256k1::SecretKey, bitcoin::PublicKey) {
    let secp = secp256k1::Secp256k1::new();
    let sk = secp256k1::SecretKey::from_slice(&[b; 32]).unwrap();
    (sk, bitcoin::PublicKey::new(secp256k1::PublicKey::from_secret_key(&secp, &sk)))
}

/// Two-input transaction: input 0 is ours (descriptor `d`), input 1 belongs to somebody else who
/// has not added anything to the PSBT yet (payjoin / coinjoin / dual funding).
fn build(d: &str) -> (Psbt, Descriptor<bitcoin::PublicKey>, Vec<u8>) {
    let secp = secp256k1::Secp256k1::new();
    let (sk, pk) = key(0x11);
    let desc = Descriptor::<bitcoin::PublicKey>::from_str(&d.replace("K", &pk.to_string())).unwrap();
    let prev_tx = Transaction {
        version: transaction::Version::TWO,
        lock_time: absolute::LockTime::ZERO,
        input: vec![],
        output: vec![TxOut { value: Amount::from_sat(100_000), script_pubkey: desc.script_pubkey() }],
    };
    let other_txid = sha256::Hash::hash(b"somebody else's coin");
    let tx = Transaction {
        version: transaction::Version::TWO,
        lock_time: absolute::LockTime::ZERO,
        input: vec![
            TxIn {
                previous_output: OutPoint { txid: prev_tx.compute_txid(), vout: 0 },
                script_sig: ScriptBuf::new(),
                sequence: Sequence::MAX,
                witness: Witness::new(),
            },
            TxIn {
                previous_output: OutPoint {
                    txid: bitcoin::Txid::from_byte_array(other_txid.to_byte_array()),
                    vout: 3,
                },
                script_sig: ScriptBuf::new(),
                sequence: Sequence::MAX,
                witness: Witness::new(),
            },
        ],
        output: vec![TxOut { value: Amount::from_sat(150_000), script_pubkey: ScriptBuf::new() }],
    };

    // The signature hash of input 0, computed with rust-bitcoin only. BIP143 (segwit v0) commits to
    // the outpoints and sequences of all inputs (part of the unsigned tx), the outputs, and the
    // scriptCode and AMOUNT OF THE INPUT BEING SIGNED - not to other inputs' amounts or scripts.
    // The legacy algorithm commits to no amount at all.
    let mut cache = SighashCache::new(&tx);
    let digest = match &desc {
        Descriptor::Wsh(w) => cache
            .p2wsh_signature_hash(0, &w.inner_script(), prev_tx.output[0].value, EcdsaSighashType::All)
            .unwrap()
            .to_byte_array(),
        Descriptor::Wpkh(_) => cache
            .p2wpkh_signature_hash(0, &desc.script_pubkey(), prev_tx.output[0].value, EcdsaSighashType::All)
            .unwrap()
            .to_byte_array(),
        Descriptor::Pkh(_) => cache
            .legacy_signature_hash(0, &desc.script_pubkey(), EcdsaSighashType::All.to_u32())
            .unwrap()
            .to_byte_array(),
        _ => unreachable!(),
    };
    let msg = secp256k1::Message::from_digest(digest);
    let sig = bitcoin::ecdsa::Signature { signature: secp.sign_ecdsa(&msg, &sk), sighash_type: EcdsaSighashType::All };
    // CHECKSIG succeeds for <sig> <pk>: the signature verifies under the digest above.
    secp.verify_ecdsa(&msg, &sig.signature, &pk.inner).unwrap();
    // ... and the scriptPubKey commits to the key / script the obvious way:
    match &desc {
        Descriptor::Wsh(w) => {
            // OP_0 <sha256(witnessScript)>, witnessScript = <pk> OP_CHECKSIG
            let ws = w.inner_script();
            assert_eq!(ws.as_bytes()[0], 33);
            assert_eq!(&ws.as_bytes()[1..34], &pk.to_bytes()[..]);
            assert_eq!(ws.as_bytes()[34], 0xac);
            assert_eq!(ws.len(), 35);
            assert_eq!(&desc.script_pubkey().as_bytes()[2..], sha256::Hash::hash(ws.as_bytes()).as_byte_array());
        }
        Descriptor::Wpkh(_) => {
            assert_eq!(&desc.script_pubkey().as_bytes()[2..], hash160::Hash::hash(&pk.to_bytes()).as_byte_array())
        }
        Descriptor::Pkh(_) => {
            assert_eq!(&desc.script_pubkey().as_bytes()[3..23], hash160::Hash::hash(&pk.to_bytes()).as_byte_array())
        }
        _ => unreachable!(),
    }

    let mut psbt = Psbt::from_unsigned_tx(tx).unwrap();
    psbt.inputs[0].non_witness_utxo = Some(prev_tx.clone());
    if !matches!(desc, Descriptor::Pkh(_)) {
        psbt.inputs[0].witness_utxo = Some(prev_tx.output[0].clone());
    }
    if let Descriptor::Wsh(w) = &desc {
        psbt.inputs[0].witness_script = Some(w.inner_script());
    }
    psbt.inputs[0].partial_sigs.insert(pk, sig);
    // psbt.inputs[1] stays empty: the other party has not contributed yet.
    (psbt, desc, sig.to_vec())
}

#[test]
fn control_other_input_has_utxo() {
    let secp = secp256k1::Secp256k1::new();
    for d in ["wsh(pk(K))", "wpkh(K)", "pkh(K)"] {
        let (mut psbt, _, _) = build(d);
        psbt.inputs[1].witness_utxo = Some(TxOut { value: Amount::from_sat(60_000), script_pubkey: ScriptBuf::new() });
        psbt.finalize_inp_mut(&secp, 0).expect("finalizes once the unrelated input has a UTXO record");
    }
}

#[test]
fn satisfier_alone_finds_the_spend() {
    // the satisfaction engine itself has no problem - the failure is in the finalizer around it
    for d in ["wsh(pk(K))", "wpkh(K)", "pkh(K)"] {
        let (psbt, desc, _) = build(d);
        desc.get_satisfaction(PsbtInputSatisfier::new(&psbt, 0)).unwrap();
    }
}

#[test]
fn own_input_finalizes_without_foreign_utxo() {
    let secp = secp256k1::Secp256k1::new();
    let mut failures = vec![];
    for d in ["wsh(pk(K))", "wpkh(K)", "pkh(K)"] {
        for mall in [false, true] {
            let (mut psbt, _, sig) = build(d);
            let res = if mall { psbt.finalize_inp_mall_mut(&secp, 0) } else { psbt.finalize_inp_mut(&secp, 0) };
            if res.is_err() {
                failures.push(format!("{} (malleable={}): finalize_inp says {:?}", d, mall, res));
                continue;
            }
            let inp = &psbt.inputs[0];
            let has_sig = inp.final_script_witness.as_ref().map(|w| w.to_vec().contains(&sig)).unwrap_or(false)
                || inp.final_script_sig.as_ref().map(|s| s.as_bytes().windows(sig.len()).any(|w| w == &sig[..])).unwrap_or(false);
            assert!(has_sig);
        }
    }
    // C02: input 0 has its UTXO, its script and a valid signature (verified in `build`)
    assert!(failures.is_empty(), "C02 violated, input 0 is complete but:\n  {}", failures.join("\n  "));
}
