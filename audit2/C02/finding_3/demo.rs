//! C02 / audit2 finding 3: `Plan::satisfy` panics (builds with debug assertions, i.e. the default
//! `cargo build` / `cargo test` profile) when the caller's taproot signature carries an explicit
//! sighash type (65 bytes) while the plan was made from `Assets` that assumed SIGHASH_DEFAULT
//! (64 bytes, the default of `CanSign`). The signature is perfectly valid, the witness exists.
use std::collections::HashMap;
use std::str::FromStr;

use miniscript::bitcoin::hashes::Hash;
use miniscript::bitcoin::key::TapTweak;
use miniscript::bitcoin::sighash::{Prevouts, SighashCache};
use miniscript::bitcoin::taproot::{ControlBlock, LeafVersion, TapLeafHash};
use miniscript::bitcoin::{
    self, absolute, secp256k1, transaction, Amount, OutPoint, ScriptBuf, Sequence, TapSighashType,
    Transaction, TxIn, TxOut, Txid, Witness, XOnlyPublicKey,
};
use miniscript::plan::Assets;
use miniscript::{DefiniteDescriptorKey, Descriptor, DescriptorPublicKey, Satisfier};

/// The caller's assets as a `Satisfier`: signatures by key.
struct Sigs {
    key_spend: Option<bitcoin::taproot::Signature>,
    leaf: HashMap<(XOnlyPublicKey, TapLeafHash), bitcoin::taproot::Signature>,
}
impl Satisfier<DefiniteDescriptorKey> for Sigs {
    fn lookup_tap_key_spend_sig(&self, _: &DefiniteDescriptorKey) -> Option<bitcoin::taproot::Signature> {
        self.key_spend
    }
    fn lookup_tap_leaf_script_sig(
        &self,
        pk: &DefiniteDescriptorKey,
        lh: &TapLeafHash,
    ) -> Option<bitcoin::taproot::Signature> {
        use miniscript::ToPublicKey;
        self.leaf.get(&(pk.to_x_only_pubkey(), *lh)).copied()
    }
}

fn spend_tx() -> Transaction {
    Transaction {
        version: transaction::Version::TWO,
        lock_time: absolute::LockTime::ZERO,
        input: vec![TxIn {
            previous_output: OutPoint { txid: Txid::all_zeros(), vout: 0 },
            script_sig: ScriptBuf::new(),
            sequence: Sequence::MAX,
            witness: Witness::new(),
        }],
        output: vec![TxOut { value: Amount::from_sat(99_000), script_pubkey: ScriptBuf::new() }],
    }
}

fn run(sighash_type: TapSighashType, key_path: bool) -> Result<Vec<Vec<u8>>, String> {
    let secp = secp256k1::Secp256k1::new();
    let kp_i = secp256k1::Keypair::from_seckey_slice(&secp, &[0x31; 32]).unwrap();
    let kp_b = secp256k1::Keypair::from_seckey_slice(&secp, &[0x32; 32]).unwrap();
    let (xi, _) = XOnlyPublicKey::from_keypair(&kp_i);
    let (xb, _) = XOnlyPublicKey::from_keypair(&kp_b);

    let desc = Descriptor::<DefiniteDescriptorKey>::from_str(&format!("tr({},pk({}))", xi, xb)).unwrap();
    let tr = match &desc {
        Descriptor::Tr(tr) => tr.clone(),
        _ => unreachable!(),
    };
    let prevout = TxOut { value: Amount::from_sat(100_000), script_pubkey: desc.script_pubkey() };
    let q = XOnlyPublicKey::from_slice(&prevout.script_pubkey.as_bytes()[2..]).unwrap();
    let tx = spend_tx();

    // plan with the caller's key; `CanSign::default()` (what every `IntoAssets` impl produces)
    let asset_key = if key_path { xi } else { xb };
    let assets = Assets::new().add(DescriptorPublicKey::from_str(&asset_key.to_string()).unwrap());
    let plan = desc.clone().into_plan(&assets).expect("plan exists");

    // the signer (e.g. a hardware wallet that always appends the sighash byte) signs with `sighash_type`
    let mut sigs = Sigs { key_spend: None, leaf: HashMap::new() };
    let expected_witness: Vec<Vec<u8>>;
    if key_path {
        let sighash = SighashCache::new(&tx)
            .taproot_key_spend_signature_hash(0, &Prevouts::All(&[prevout.clone()]), sighash_type)
            .unwrap();
        let msg = secp256k1::Message::from_digest(sighash.to_byte_array());
        let tweaked = kp_i.tap_tweak(&secp, tr.spend_info().merkle_root()).to_keypair();
        let sig = bitcoin::taproot::Signature { signature: secp.sign_schnorr_no_aux_rand(&msg, &tweaked), sighash_type };
        // BIP341 key path: a 65-byte signature whose last byte is a valid, non-zero hash type.
        secp.verify_schnorr(&sig.signature, &msg, &q).unwrap();
        sigs.key_spend = Some(sig);
        expected_witness = vec![sig.to_vec()];
    } else {
        let leaf = tr.leaves().next().unwrap();
        let script = leaf.miniscript().encode();
        let lh = TapLeafHash::from_script(&script, LeafVersion::TapScript);
        let sighash = SighashCache::new(&tx)
            .taproot_script_spend_signature_hash(0, &Prevouts::All(&[prevout.clone()]), lh, sighash_type)
            .unwrap();
        let msg = secp256k1::Message::from_digest(sighash.to_byte_array());
        let sig = bitcoin::taproot::Signature { signature: secp.sign_schnorr_no_aux_rand(&msg, &kp_b), sighash_type };
        // BIP342: script is <B> OP_CHECKSIG; the signature verifies under B for the script-path sighash
        assert_eq!(script.as_bytes()[0], 32);
        assert_eq!(&script.as_bytes()[1..33], &xb.serialize()[..]);
        assert_eq!(script.as_bytes()[33], 0xac);
        secp.verify_schnorr(&sig.signature, &msg, &xb).unwrap();
        sigs.leaf.insert((xb, lh), sig);
        let spend_info = tr.spend_info();
        let cb: ControlBlock = spend_info.leaves().next().unwrap().control_block().clone();
        // BIP341 script path: the control block commits the leaf to the output key
        assert!(cb.verify_taproot_commitment(&secp, q, &script));
        expected_witness = vec![sig.to_vec(), script.to_bytes(), cb.serialize()];
    }
    assert_eq!(expected_witness[0].len(), if sighash_type == TapSighashType::Default { 64 } else { 65 });

    let res = std::panic::catch_unwind(std::panic::AssertUnwindSafe(|| plan.satisfy(&sigs)));
    match res {
        Err(_) => Err("Plan::satisfy panicked".to_string()),
        Ok(Err(e)) => Err(format!("Plan::satisfy returned {:?}", e)),
        Ok(Ok((witness, script_sig))) => {
            assert!(script_sig.is_empty());
            assert_eq!(witness, expected_witness);
            Ok(witness)
        }
    }
}

#[test]
fn control_sighash_default() {
    run(TapSighashType::Default, true).unwrap();
    run(TapSighashType::Default, false).unwrap();
}

#[test]
fn key_path_signature_with_explicit_sighash_type() {
    for ty in [TapSighashType::All, TapSighashType::AllPlusAnyoneCanPay, TapSighashType::None] {
        let r = run(ty, true);
        assert!(r.is_ok(), "C02 violated: valid key-path signature ({:?}) held by the caller, but {}", ty, r.unwrap_err());
    }
}

#[test]
fn script_path_signature_with_explicit_sighash_type() {
    for ty in [TapSighashType::All, TapSighashType::SinglePlusAnyoneCanPay] {
        let r = run(ty, false);
        assert!(r.is_ok(), "C02 violated: valid script-path signature ({:?}) held by the caller, but {}", ty, r.unwrap_err());
    }
}
