//! C02 / audit2 finding 4: the planner does not recognise the caller's key when it is handed over in
//! another serialization than the one the descriptor uses (x-only / compressed / uncompressed).
//! `Assets` identify a key by `master_fingerprint()`, and for a plain key without origin that
//! "fingerprint" is HASH160 of whatever bytes the key expression happened to have, so the same
//! secp256k1 key has up to three different identities.
use std::str::FromStr;

use miniscript::bitcoin::hashes::Hash;
use miniscript::bitcoin::key::TapTweak;
use miniscript::bitcoin::sighash::{Prevouts, SighashCache};
use miniscript::bitcoin::{
    self, absolute, secp256k1, transaction, Amount, EcdsaSighashType, OutPoint, ScriptBuf, Sequence,
    TapSighashType, Transaction, TxIn, TxOut, Txid, Witness, XOnlyPublicKey,
};
use miniscript::plan::Assets;
use miniscript::{DefiniteDescriptorKey, Descriptor, DescriptorPublicKey};

fn spend_tx() -> Transaction {
    Transaction {
        version: transaction::Version::TWO,
        lock_time: absolute::LockTime::ZERO,
        input: vec![TxIn {
            previous_output: OutPoint { txid: Txid::all_zeros(), vout: 0 },
            script_sig: ScriptBuf::new(),
            sequence: Sequence::MAX,
            witness: Witness::new(),
        }],
        output: vec![TxOut { value: Amount::from_sat(99_000), script_pubkey: ScriptBuf::new() }],
    }
}

struct Keys {
    sk: secp256k1::SecretKey,
    xonly: String,
    compressed: String,
    uncompressed: String,
}
fn keys() -> Keys {
    let secp = secp256k1::Secp256k1::new();
    let sk = secp256k1::SecretKey::from_slice(&[0x41; 32]).unwrap();
    let pk = secp256k1::PublicKey::from_secret_key(&secp, &sk);
    Keys {
        sk,
        xonly: pk.x_only_public_key().0.to_string(),
        compressed: bitcoin::PublicKey::new(pk).to_string(),
        uncompressed: bitcoin::PublicKey::new_uncompressed(pk).to_string(),
    }
}

fn plans(desc: &str, asset_key: &str) -> (bool, bool) {
    let desc = Descriptor::<DefiniteDescriptorKey>::from_str(desc).unwrap();
    let assets = Assets::new().add(DescriptorPublicKey::from_str(asset_key).unwrap());
    (desc.clone().into_plan(&assets).is_ok(), desc.into_plan_mall(&assets).is_ok())
}

/// The owner of `sk` can spend `tr(<that key>)` by the key path, whatever notation the descriptor uses
/// (BIP341: the output key is derived from the x-only internal key; BIP340 signatures are made with
/// the secret key negated as necessary - `Keypair::tap_tweak` does that).
fn assert_taproot_key_spend_exists(desc: &str, sk: &secp256k1::SecretKey) {
    let secp = secp256k1::Secp256k1::new();
    let d = Descriptor::<DefiniteDescriptorKey>::from_str(desc).unwrap();
    let prevout = TxOut { value: Amount::from_sat(100_000), script_pubkey: d.script_pubkey() };
    let q = XOnlyPublicKey::from_slice(&prevout.script_pubkey.as_bytes()[2..]).unwrap();
    let tx = spend_tx();
    let sighash = SighashCache::new(&tx)
        .taproot_key_spend_signature_hash(0, &Prevouts::All(&[prevout]), TapSighashType::Default)
        .unwrap();
    let msg = secp256k1::Message::from_digest(sighash.to_byte_array());
    let kp = secp256k1::Keypair::from_secret_key(&secp, sk).tap_tweak(&secp, None).to_keypair();
    let sig = secp.sign_schnorr_no_aux_rand(&msg, &kp);
    secp.verify_schnorr(&sig, &msg, &q).expect("key-path witness [sig] is valid");
}

/// The owner of `sk` can spend `sh(pk(<uncompressed key>))`: scriptSig `<sig> <redeemScript>`,
/// redeemScript `<65-byte key> CHECKSIG`; CHECKSIG accepts both encodings of a point (legacy scripts).
fn assert_p2sh_spend_exists(desc: &str, sk: &secp256k1::SecretKey) {
    let secp = secp256k1::Secp256k1::new();
    let d = Descriptor::<DefiniteDescriptorKey>::from_str(desc).unwrap();
    let redeem = d.explicit_script().unwrap();
    assert_eq!(redeem.to_p2sh(), d.script_pubkey()); // BIP16
    assert_eq!(redeem.len(), 67);
    assert_eq!(redeem.as_bytes()[0], 65);
    assert_eq!(redeem.as_bytes()[66], 0xac);
    let key_in_script = bitcoin::PublicKey::from_slice(&redeem.as_bytes()[1..66]).unwrap();
    assert_eq!(key_in_script.inner, secp256k1::PublicKey::from_secret_key(&secp, sk));
    let tx = spend_tx();
    let sighash = SighashCache::new(&tx)
        .legacy_signature_hash(0, &redeem, EcdsaSighashType::All.to_u32())
        .unwrap();
    let msg = secp256k1::Message::from_digest(sighash.to_byte_array());
    let sig = secp.sign_ecdsa(&msg, sk);
    secp.verify_ecdsa(&msg, &sig, &key_in_script.inner).unwrap();
}

#[test]
fn control_same_notation() {
    let k = keys();
    assert_eq!(plans(&format!("tr({})", k.xonly), &k.xonly), (true, true));
    assert_eq!(plans(&format!("tr({})", k.compressed), &k.compressed), (true, true));
    assert_eq!(plans(&format!("sh(pk({}))", k.uncompressed), &k.uncompressed), (true, true));
    // with an explicit origin the notation does not matter
    assert_eq!(
        plans(&format!("tr([aabbccdd/1/2]{})", k.xonly), &format!("[aabbccdd/1/2]{}", k.compressed)),
        (true, true)
    );
}

#[test]
fn taproot_xonly_descriptor_key_given_as_full_key() {
    let k = keys();
    let desc = format!("tr({})", k.xonly);
    assert_taproot_key_spend_exists(&desc, &k.sk);
    let got = plans(&desc, &k.compressed);
    assert_eq!(got, (true, true), "C02 violated: {} with the caller's key {} -> (into_plan, into_plan_mall) ok = {:?}", desc, k.compressed, got);
}

#[test]
fn taproot_full_descriptor_key_given_as_xonly_key() {
    let k = keys();
    let desc = format!("tr({})", k.compressed);
    assert_taproot_key_spend_exists(&desc, &k.sk);
    let got = plans(&desc, &k.xonly);
    assert_eq!(got, (true, true), "C02 violated: {} with the caller's key {} -> {:?}", desc, k.xonly, got);
}

#[test]
fn taproot_leaf_key() {
    let k = keys();
    let secp = secp256k1::Secp256k1::new();
    let other = secp256k1::Keypair::from_seckey_slice(&secp, &[0x42; 32]).unwrap().x_only_public_key().0;
    let desc = format!("tr({},pk({}))", other, k.xonly);
    // (the script path `<sig> <A CHECKSIG> <control block>` exists for the owner of A just like above)
    let got = plans(&desc, &k.compressed);
    assert_eq!(got, (true, true), "C02 violated: {} with the caller's key {} -> {:?}", desc, k.compressed, got);
}

#[test]
fn legacy_uncompressed_descriptor_key_given_as_compressed_key() {
    let k = keys();
    let desc = format!("sh(pk({}))", k.uncompressed);
    assert_p2sh_spend_exists(&desc, &k.sk);
    let got = plans(&desc, &k.compressed);
    assert_eq!(got, (true, true), "C02 violated: {} with the caller's key {} -> {:?}", desc, k.compressed, got);
}
