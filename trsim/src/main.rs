//! Engine B `trsim`: the Tr spend-info cache (the library's only shared mutable state) under
//! controlled thread schedules (shuttle), checked against an independent BIP341 reference (R4).
//!
//! usage: trsim check [--tier quick|thorough] [--iters N]
//!        trsim replay <file.json>

use std::collections::hash_map::DefaultHasher;
use std::hash::Hasher;
use std::panic::{catch_unwind, AssertUnwindSafe};
use std::str::FromStr;
use std::sync::Arc;
use std::time::Instant;

use bitcoin::hashes::{sha256, Hash, HashEngine};
use bitcoin::secp256k1::{self, Secp256k1, XOnlyPublicKey};
use miniscript::descriptor::Tr;
use miniscript::{translate_hash_clone, Descriptor, Translator};
use serde_json::{json, Value};
use shuttle::scheduler::{PctScheduler, RandomScheduler, ReplayScheduler};
use shuttle::{thread, Config, FailurePersistence, Runner};

// ----------------------------------------------------------------------------------------------
// PRNG (same construction as engine A)
// ----------------------------------------------------------------------------------------------
fn splitmix64(state: &mut u64) -> u64 {
    *state = state.wrapping_add(0x9E37_79B9_7F4A_7C15);
    let mut z = *state;
    z = (z ^ (z >> 30)).wrapping_mul(0xBF58_476D_1CE4_E5B9);
    z = (z ^ (z >> 27)).wrapping_mul(0x94D0_49BB_1331_11EB);
    z ^ (z >> 31)
}
struct Rng(u64);
impl Rng {
    fn next(&mut self) -> u64 { splitmix64(&mut self.0) }
    fn below(&mut self, n: u64) -> u64 {
        if n <= 1 {
            0
        } else {
            self.next() % n
        }
    }
    fn range(&mut self, lo: u64, hi: u64) -> u64 { lo + self.below(hi - lo + 1) }
}
fn mix(a: u64, b: u64) -> u64 {
    let mut s = a ^ b.rotate_left(29) ^ 0x243F_6A88_85A3_08D3;
    splitmix64(&mut s)
}

// ----------------------------------------------------------------------------------------------
// R4: BIP341 reference by plain recursion over an explicit tree
// ----------------------------------------------------------------------------------------------
fn tagged(tag: &str, parts: &[&[u8]]) -> [u8; 32] {
    let t = sha256::Hash::hash(tag.as_bytes()).to_byte_array();
    let mut e = sha256::Hash::engine();
    e.input(&t);
    e.input(&t);
    for p in parts {
        e.input(p);
    }
    sha256::Hash::from_engine(e).to_byte_array()
}
fn compact(n: usize) -> Vec<u8> {
    if n < 253 {
        vec![n as u8]
    } else {
        let mut v = vec![253];
        v.extend_from_slice(&(n as u16).to_le_bytes());
        v
    }
}
fn leaf_hash(script: &[u8]) -> [u8; 32] { tagged("TapLeaf", &[&[0xc0], &compact(script.len()), script]) }
fn branch(a: &[u8; 32], b: &[u8; 32]) -> [u8; 32] {
    if a <= b {
        tagged("TapBranch", &[a, b])
    } else {
        tagged("TapBranch", &[b, a])
    }
}

#[derive(Clone, Debug)]
enum Tree {
    Leaf(usize),
    Node(Box<Tree>, Box<Tree>),
}

#[derive(Clone, Debug)]
struct RefLeaf {
    leaf: usize,
    depth: u8,
    hash: [u8; 32],
    path: Vec<[u8; 32]>,
}

/// returns node hash; fills `out` in DFS (left to right) order
fn ref_walk(t: &Tree, depth: u8, scripts: &[Vec<u8>], out: &mut Vec<RefLeaf>) -> ([u8; 32], Vec<usize>) {
    match t {
        Tree::Leaf(i) => {
            let h = leaf_hash(&scripts[*i]);
            out.push(RefLeaf { leaf: *i, depth, hash: h, path: vec![] });
            (h, vec![out.len() - 1])
        }
        Tree::Node(l, r) => {
            let (lh, li) = ref_walk(l, depth + 1, scripts, out);
            let (rh, ri) = ref_walk(r, depth + 1, scripts, out);
            for i in &li {
                out[*i].path.push(rh);
            }
            for i in &ri {
                out[*i].path.push(lh);
            }
            let mut all = li;
            all.extend(ri);
            (branch(&lh, &rh), all)
        }
    }
}

struct Reference {
    internal: [u8; 32],
    root: Option<[u8; 32]>,
    output: [u8; 32],
    parity_odd: bool,
    leaves: Vec<RefLeaf>,
}

fn reference(internal: &XOnlyPublicKey, tree: Option<&Tree>, scripts: &[Vec<u8>]) -> Reference {
    let secp = Secp256k1::verification_only();
    let ik = internal.serialize();
    let mut leaves = vec![];
    let root = tree.map(|t| ref_walk(t, 0, scripts, &mut leaves).0);
    let tw = match &root {
        Some(r) => tagged("TapTweak", &[&ik, r]),
        None => tagged("TapTweak", &[&ik]),
    };
    let (q, par) = internal.add_tweak(&secp, &secp256k1::Scalar::from_be_bytes(tw).unwrap()).unwrap();
    Reference { internal: ik, root, output: q.serialize(), parity_odd: par == secp256k1::Parity::Odd, leaves }
}

// ----------------------------------------------------------------------------------------------
// workload
// ----------------------------------------------------------------------------------------------
fn key(n: u64) -> XOnlyPublicKey {
    let secp = Secp256k1::new();
    let mut b = [0u8; 32];
    b[..8].copy_from_slice(&mix(0x6b6579, n).to_le_bytes());
    b[8..16].copy_from_slice(&mix(0x6b657a, n).to_le_bytes());
    b[31] = 1;
    let sk = secp256k1::SecretKey::from_slice(&b).unwrap();
    secp256k1::Keypair::from_secret_key(&secp, &sk).x_only_public_key().0
}

#[derive(Clone, Debug)]
struct Scenario {
    seed: u64,
    iter: u64,
    shape: &'static str,
    /// leaf miniscript strings by leaf id (ids may repeat in the tree: repeated leaves)
    leaf_ms: Vec<String>,
    tree: Option<Tree>,
    internal: u64,
    n_threads: usize,
    ops: Vec<Vec<u8>>,
    pct: bool,
    /// the object under test is assembled with TapTree::leaf / TapTree::combine + Tr::new instead of
    /// being parsed (both construction paths must give the same object)
    built: bool,
}

fn gen_tree(r: &mut Rng, shape: u64, n_leaf_ids: usize, next: &mut usize) -> Tree {
    let mut leaf = |r: &mut Rng| {
        // mostly fresh leaves, sometimes a repeated one
        if *next > 0 && r.below(8) == 0 {
            Tree::Leaf(r.below(*next as u64) as usize % n_leaf_ids)
        } else {
            let i = *next % n_leaf_ids;
            *next += 1;
            Tree::Leaf(i)
        }
    };
    match shape {
        0 => leaf(r),
        1 => {
            // balanced, depth 1..5
            fn bal(d: u32, r: &mut Rng, leaf: &mut dyn FnMut(&mut Rng) -> Tree) -> Tree {
                if d == 0 {
                    leaf(r)
                } else {
                    Tree::Node(Box::new(bal(d - 1, r, leaf)), Box::new(bal(d - 1, r, leaf)))
                }
            }
            let d = r.range(1, 5) as u32;
            bal(d, r, &mut leaf)
        }
        2 | 3 => {
            // left / right chain, depth up to 128
            let d = match r.below(4) {
                0 => 128,
                1 => 127,
                _ => r.range(1, 40),
            };
            // what hangs at the bottom of the chain: one leaf, or (at full depth) a small subtree so
            // that several sibling pairs sit at the maximum depth; or two full-depth chains side by side
            let variant = if d >= 127 { r.below(4) } else { 0 };
            let chain = |r: &mut Rng, leaf: &mut dyn FnMut(&mut Rng) -> Tree, mut t: Tree, n: u64| {
                for _ in 0..n {
                    let l = leaf(r);
                    t = if shape == 2 { Tree::Node(Box::new(t), Box::new(l)) } else { Tree::Node(Box::new(l), Box::new(t)) };
                }
                t
            };
            match variant {
                1 => {
                    // four leaves at depth 128: {{A,B},{C,D}} rooted at depth 126
                    let a = Tree::Node(Box::new(leaf(r)), Box::new(leaf(r)));
                    let b = Tree::Node(Box::new(leaf(r)), Box::new(leaf(r)));
                    let t = Tree::Node(Box::new(a), Box::new(b));
                    chain(r, &mut leaf, t, 126)
                }
                2 => {
                    // two chains of depth 127 under the root: two unrelated pairs at depth 128
                    let l0 = leaf(r);
                    let a = chain(r, &mut leaf, l0, 127);
                    let l1 = leaf(r);
                    let b = chain(r, &mut leaf, l1, 127);
                    Tree::Node(Box::new(a), Box::new(b))
                }
                _ => {
                    let l0 = leaf(r);
                    chain(r, &mut leaf, l0, d)
                }
            }
        }
        6 => {
            // large balanced tree (64..256 leaves), optionally hung under a short chain
            fn bal(d: u32, r: &mut Rng, leaf: &mut dyn FnMut(&mut Rng) -> Tree) -> Tree {
                if d == 0 {
                    leaf(r)
                } else {
                    Tree::Node(Box::new(bal(d - 1, r, leaf)), Box::new(bal(d - 1, r, leaf)))
                }
            }
            let d = r.range(6, 8) as u32;
            let mut t = bal(d, r, &mut leaf);
            for _ in 0..r.below(4) {
                let l = leaf(r);
                t = if r.below(2) == 0 { Tree::Node(Box::new(t), Box::new(l)) } else { Tree::Node(Box::new(l), Box::new(t)) };
            }
            t
        }
        7 => {
            // large random shape, 100..400 leaves
            fn rnd(budget: &mut i32, depth: u32, r: &mut Rng, leaf: &mut dyn FnMut(&mut Rng) -> Tree) -> Tree {
                if *budget <= 1 || depth > 60 || r.below(12) == 0 {
                    leaf(r)
                } else {
                    *budget -= 1;
                    Tree::Node(Box::new(rnd(budget, depth + 1, r, leaf)), Box::new(rnd(budget, depth + 1, r, leaf)))
                }
            }
            let mut b = r.range(100, 400) as i32;
            let mut t = rnd(&mut b, 0, r, &mut leaf);
            // spend what is left of the budget as a spine so that the tree really is large
            while b > 1 && depth_of(&t) < 110 {
                let mut sub_b = b.min(40);
                let before = sub_b;
                let sub = rnd(&mut sub_b, 1, r, &mut leaf);
                b -= (before - sub_b) + 1;
                t = if r.below(2) == 0 { Tree::Node(Box::new(t), Box::new(sub)) } else { Tree::Node(Box::new(sub), Box::new(t)) };
            }
            t
        }
        _ => {
            // random shape with up to 24 leaves
            fn rnd(budget: &mut i32, depth: u32, r: &mut Rng, leaf: &mut dyn FnMut(&mut Rng) -> Tree) -> Tree {
                if *budget <= 1 || depth > 20 || r.below(3) == 0 {
                    leaf(r)
                } else {
                    *budget -= 1;
                    Tree::Node(Box::new(rnd(budget, depth + 1, r, leaf)), Box::new(rnd(budget, depth + 1, r, leaf)))
                }
            }
            let mut b = r.range(2, 24) as i32;
            rnd(&mut b, 0, r, &mut leaf)
        }
    }
}

fn depth_of(t: &Tree) -> u32 {
    // iterative: chains may be deep
    let mut best = 0;
    let mut stack = vec![(t, 0u32)];
    while let Some((n, d)) = stack.pop() {
        match n {
            Tree::Leaf(_) => best = best.max(d),
            Tree::Node(l, r) => {
                stack.push((l, d + 1));
                stack.push((r, d + 1));
            }
        }
    }
    best
}

fn count_leaves(t: &Tree) -> usize {
    let mut n = 0;
    let mut stack = vec![t];
    while let Some(x) = stack.pop() {
        match x {
            Tree::Leaf(_) => n += 1,
            Tree::Node(l, r) => {
                stack.push(l);
                stack.push(r);
            }
        }
    }
    n
}

fn build_taptree(t: &Tree, leaf_ms: &[String]) -> Result<miniscript::descriptor::TapTree<XOnlyPublicKey>, String> {
    use miniscript::descriptor::TapTree;
    match t {
        Tree::Leaf(i) => {
            let ms = miniscript::Miniscript::<XOnlyPublicKey, miniscript::Tap>::from_str(&leaf_ms[*i]).map_err(|e| e.to_string())?;
            Ok(TapTree::leaf(ms))
        }
        Tree::Node(l, r) => {
            let a = build_taptree(l, leaf_ms)?;
            let b = build_taptree(r, leaf_ms)?;
            TapTree::combine(a, b).map_err(|e| format!("combine: {}", e))
        }
    }
}

fn tree_str(t: &Tree, leaf_ms: &[String]) -> String {
    match t {
        Tree::Leaf(i) => leaf_ms[*i].clone(),
        Tree::Node(l, r) => format!("{{{},{}}}", tree_str(l, leaf_ms), tree_str(r, leaf_ms)),
    }
}

const OPS: u8 = 14;

fn gen_scenario(seed: u64, iter: u64) -> Scenario {
    let mut r = Rng(mix(seed, iter));
    let shape_id = r.below(8);
    let shape = ["single-leaf", "balanced", "left-chain", "right-chain", "random", "key-only", "large-balanced", "large-random"][shape_id as usize];
    let n_leaf_ids = if shape_id >= 6 { 420 } else { 140 };
    let mut leaf_ms = vec![];
    for i in 0..n_leaf_ids {
        let k = key(1000 + iter * 7 % 5 + i as u64);
        leaf_ms.push(match r.below(4) {
            0 => format!("pk({})", k),
            1 => format!("and_v(v:pk({}),older({}))", k, 1 + i),
            2 => format!("multi_a(1,{},{})", k, key(5000 + i as u64)),
            _ => format!("pkh({})", k),
        });
    }
    let mut next = 0;
    let tree = if shape_id == 5 { None } else { Some(gen_tree(&mut r, shape_id, n_leaf_ids, &mut next)) };
    let n_threads = r.range(2, 4) as usize;
    let ops = (0..n_threads).map(|_| (0..r.range(2, 6)).map(|_| r.below(OPS as u64) as u8).collect()).collect();
    let internal = r.below(50);
    let built = r.below(3) == 0;
    Scenario { seed, iter, shape, leaf_ms, tree, internal, n_threads, ops, pct: iter % 2 == 1, built }
}

struct Renamer;
impl Translator<XOnlyPublicKey> for Renamer {
    type TargetPk = XOnlyPublicKey;
    type Error = ();
    fn pk(&mut self, pk: &XOnlyPublicKey) -> Result<XOnlyPublicKey, ()> {
        // deterministic injective renaming: key(hash of the key bytes)
        let b = pk.serialize();
        let mut h = 0u64;
        for x in b {
            h = mix(h, x as u64);
        }
        Ok(key(1_000_000 + (h % 1_000_000)))
    }
    translate_hash_clone!(XOnlyPublicKey);
}
struct Identity;
impl Translator<XOnlyPublicKey> for Identity {
    type TargetPk = XOnlyPublicKey;
    type Error = ();
    fn pk(&mut self, pk: &XOnlyPublicKey) -> Result<XOnlyPublicKey, ()> { Ok(*pk) }
    translate_hash_clone!(XOnlyPublicKey);
}

struct Expect {
    text: String,
    reference: Reference,
    scripts_by_pos: Vec<Vec<u8>>,
    renamed_reference: Reference,
}

fn expect_of(sc: &Scenario) -> Result<Expect, String> {
    let ik = key(sc.internal);
    let text = match &sc.tree {
        Some(t) => format!("tr({},{})", ik, tree_str(t, &sc.leaf_ms)),
        None => format!("tr({})", ik),
    };
    // scripts per leaf id come from the leaf miniscripts parsed on their own (encode is not what is
    // under test here)
    let mut scripts = vec![];
    for m in &sc.leaf_ms {
        let ms = miniscript::Miniscript::<XOnlyPublicKey, miniscript::Tap>::from_str(m).map_err(|e| format!("leaf {}: {}", m, e))?;
        scripts.push(ms.encode().into_bytes());
    }
    let reference = reference(&ik, sc.tree.as_ref(), &scripts);
    let scripts_by_pos = reference.leaves.iter().map(|l| scripts[l.leaf].clone()).collect();
    // renamed version
    let mut rn = Renamer;
    let mut rscripts = vec![];
    for m in &sc.leaf_ms {
        let ms = miniscript::Miniscript::<XOnlyPublicKey, miniscript::Tap>::from_str(m).unwrap();
        let t = ms.translate_pk(&mut rn).map_err(|_| "translate".to_string())?;
        rscripts.push(t.encode().into_bytes());
    }
    let rik = rn.pk(&ik).unwrap();
    let renamed_reference = self::reference(&rik, sc.tree.as_ref(), &rscripts);
    Ok(Expect { text, reference, scripts_by_pos, renamed_reference })
}

fn hash_of<T: std::hash::Hash>(t: &T) -> u64 {
    let mut h = DefaultHasher::new();
    std::hash::Hash::hash(t, &mut h);
    h.finish()
}

fn check_spend_info(tr: &Tr<XOnlyPublicKey>, r: &Reference, scripts_by_pos: Option<&[Vec<u8>]>, what: &str) {
    let secp = Secp256k1::verification_only();
    let si = tr.spend_info();
    assert_eq!(si.internal_key().serialize(), r.internal, "{}: internal key", what);
    assert_eq!(si.output_key().to_x_only_public_key().serialize(), r.output, "{}: output key differs from BIP341 reference", what);
    assert_eq!(si.output_key_parity() == secp256k1::Parity::Odd, r.parity_odd, "{}: output key parity", what);
    assert_eq!(si.merkle_root().map(|m| m.to_byte_array()), r.root, "{}: merkle root differs from BIP341 reference", what);
    let leaves: Vec<_> = si.leaves().collect();
    assert_eq!(leaves.len(), r.leaves.len(), "{}: number of leaves", what);
    for (i, l) in leaves.iter().enumerate() {
        let rl = &r.leaves[i];
        assert_eq!(l.depth(), rl.depth, "{}: depth of leaf {}", what, i);
        assert_eq!(l.leaf_hash().to_byte_array(), rl.hash, "{}: leaf hash of leaf {}", what, i);
        if let Some(s) = scripts_by_pos {
            assert_eq!(l.script().as_bytes(), &s[i][..], "{}: script of leaf {} (order not preserved)", what, i);
        }
        let mut cb = vec![0xc0 | r.parity_odd as u8];
        cb.extend_from_slice(&r.internal);
        for h in &rl.path {
            cb.extend_from_slice(h);
        }
        assert_eq!(l.control_block().serialize(), cb, "{}: control block of leaf {} differs from BIP341 reference", what, i);
        // and it proves the leaf against the output key (independent tweak check)
        let mut k = rl.hash;
        for h in &rl.path {
            k = branch(&k, h);
        }
        let t = tagged("TapTweak", &[&r.internal, &k]);
        let p = XOnlyPublicKey::from_slice(&r.internal).unwrap();
        let q = XOnlyPublicKey::from_slice(&r.output).unwrap();
        let par = if r.parity_odd { secp256k1::Parity::Odd } else { secp256k1::Parity::Even };
        assert!(p.tweak_add_check(&secp, &q, par, secp256k1::Scalar::from_be_bytes(t).unwrap()), "{}: reference self-check", what);
    }
}

fn run_ops(tr: &Arc<Tr<XOnlyPublicKey>>, ops: &[u8], ex: &Expect, fresh: &Tr<XOnlyPublicKey>, twin: &Arc<Tr<XOnlyPublicKey>>, other: &Arc<Tr<XOnlyPublicKey>>, tid: usize) {
    let mut spk_expect = vec![0x51, 0x20];
    spk_expect.extend_from_slice(&ex.reference.output);
    for op in ops {
        // injected yield so that PCT has priority change points between operations
        thread::sleep(std::time::Duration::from_millis(0));
        match op {
            0 => check_spend_info(tr, &ex.reference, Some(&ex.scripts_by_pos), "spend_info"),
            1 => assert_eq!(tr.script_pubkey().as_bytes(), &spk_expect[..], "script_pubkey differs from BIP341 reference"),
            2 => {
                let a = tr.address(bitcoin::Network::Bitcoin);
                assert_eq!(a.script_pubkey().as_bytes(), &spk_expect[..], "address script differs");
            }
            3 => {
                // TapTree iterator: leaves, order, depths
                let leaves: Vec<_> = tr.leaves().collect();
                assert_eq!(leaves.len(), ex.reference.leaves.len(), "leaves(): count");
                for (i, l) in leaves.iter().enumerate() {
                    assert_eq!(l.depth(), ex.reference.leaves[i].depth, "leaves(): depth of leaf {}", i);
                    assert_eq!(l.miniscript().encode().as_bytes(), &ex.scripts_by_pos[i][..], "leaves(): script of leaf {}", i);
                }
                // the same leaves from the back, and from both ends at once
                let n = leaves.len();
                let back: Vec<_> = tr.leaves().rev().collect();
                assert_eq!(back.len(), n, "leaves().rev(): count");
                for (i, l) in back.iter().enumerate() {
                    assert_eq!(l.depth(), ex.reference.leaves[n - 1 - i].depth, "leaves().rev(): depth of leaf {} from the back", i);
                    assert_eq!(l.miniscript().encode().as_bytes(), &ex.scripts_by_pos[n - 1 - i][..], "leaves().rev(): script of leaf {} from the back", i);
                }
                let mut it = tr.leaves();
                let (mut lo, mut hi, mut seen) = (0usize, n, 0usize);
                loop {
                    let from_front = (lo + hi + tid) % 3 != 0;
                    let x = if from_front { it.next() } else { it.next_back() };
                    match x {
                        None => break,
                        Some(l) => {
                            let pos = if from_front { lo } else { hi - 1 };
                            assert!(lo < hi, "leaves(): a two-ended walk yields more leaves than the tree has");
                            assert_eq!(l.miniscript().encode().as_bytes(), &ex.scripts_by_pos[pos][..], "leaves(): two-ended walk, script at position {}", pos);
                            if from_front { lo += 1 } else { hi -= 1 }
                            seen += 1;
                        }
                    }
                }
                assert_eq!(seen, n, "leaves(): a two-ended walk does not visit every leaf exactly once");
            }
            4 => {
                // clone, then continue on the clone
                let c = (**tr).clone();
                check_spend_info(&c, &ex.reference, Some(&ex.scripts_by_pos), "clone");
                assert!(c == **tr, "clone is not equal");
            }
            5 => {
                // Eq / Ord / Hash against a never-cached equal copy (stateful facet of C19)
                assert!(**tr == *fresh && *fresh == **tr, "cached Tr != uncached equal Tr");
                assert_eq!((**tr).cmp(fresh), std::cmp::Ordering::Equal, "cached Tr orders differently from uncached equal Tr");
                assert_eq!(hash_of(&**tr), hash_of(fresh), "cached Tr hashes differently from uncached equal Tr");
            }
            6 => {
                // identity translation: equal object, same output
                let t = tr.translate_pk(&mut Identity).expect("identity translate");
                assert!(t == **tr, "identity translation changed the descriptor");
                check_spend_info(&t, &ex.reference, Some(&ex.scripts_by_pos), "identity-translated");
            }
            7 => {
                // renaming: the translated Tr must never show the source's cached keys (facet of C20)
                let t = tr.translate_pk(&mut Renamer).expect("rename translate");
                check_spend_info(&t, &ex.renamed_reference, None, "renamed");
                let mut spk = vec![0x51, 0x20];
                spk.extend_from_slice(&ex.renamed_reference.output);
                assert_eq!(t.script_pubkey().as_bytes(), &spk[..], "translated descriptor shows the source's output key");
            }
            8 => {
                // print and re-parse
                let s = tr.to_string();
                let d = Descriptor::<XOnlyPublicKey>::from_str(&s).expect("re-parse");
                match d {
                    Descriptor::Tr(t2) => {
                        assert!(t2 == **tr, "print/parse changed the descriptor");
                        check_spend_info(&t2, &ex.reference, Some(&ex.scripts_by_pos), "re-parsed");
                    }
                    _ => panic!("re-parsed into a different descriptor type"),
                }
            }
            9 => {
                // drop a clone while others use the original
                let c = (**tr).clone();
                let _ = c.spend_info();
                drop(c);
            }
            10 => {
                // compare with itself and with a clone taken after the cache was filled
                let _ = tr.spend_info();
                assert!(**tr == **tr, "a Tr is not equal to itself");
                let c = (**tr).clone();
                assert!(c == **tr && **tr == c, "clone of a cached Tr is not equal to it");
                assert_eq!(c.cmp(&**tr), std::cmp::Ordering::Equal);
                assert_eq!(hash_of(&c), hash_of(&**tr));
            }
            13 => {
                // overwrite an object of ANOTHER descriptor, whose cache is filled, with clone_from
                // (directly and through Vec / Option), then use it as the descriptor under test
                let mut t = (**other).clone();
                let _ = t.spend_info();
                t.clone_from(&**tr);
                assert!(t == **tr, "clone_from result is not equal to its source");
                check_spend_info(&t, &ex.reference, Some(&ex.scripts_by_pos), "clone_from into a warm object");
                let mut v = vec![(**other).clone()];
                let _ = v[0].spend_info();
                v.clone_from(&vec![(**tr).clone()]);
                check_spend_info(&v[0], &ex.reference, Some(&ex.scripts_by_pos), "Vec::clone_from into a warm object");
                let mut o = Some((**other).clone());
                let _ = o.as_ref().unwrap().script_pubkey();
                o.clone_from(&Some((**tr).clone()));
                assert_eq!(o.as_ref().unwrap().script_pubkey().as_bytes(), &spk_expect[..], "Option::clone_from: script_pubkey of the overwritten descriptor");
            }
            11 => {
                // two cached objects compared in opposite orders by different threads
                let _ = tr.spend_info();
                let _ = twin.spend_info();
                if tid % 2 == 0 {
                    assert!(**tr == **twin, "cached twin differs");
                } else {
                    assert!(**twin == **tr, "cached twin differs");
                }
            }
            _ => {
                // ordering / hashing of two cached objects in opposite orders
                let _ = twin.spend_info();
                if tid % 2 == 0 {
                    assert_eq!((**tr).cmp(&**twin), std::cmp::Ordering::Equal);
                } else {
                    assert_eq!((**twin).cmp(&**tr), std::cmp::Ordering::Equal);
                }
                assert_eq!(hash_of(&**tr), hash_of(&**twin));
            }
        }
    }
}

fn scenario_closure(sc: Scenario) -> Result<impl Fn() + Send + Sync + 'static, String> {
    let ex = Arc::new(expect_of(&sc)?);
    let sc = Arc::new(sc);
    Ok(move || {
        let d = Descriptor::<XOnlyPublicKey>::from_str(&ex.text).expect("generated descriptor parses");
        let tr = match d {
            Descriptor::Tr(t) => t,
            _ => panic!("not tr"),
        };
        let tr = if sc.built {
            let tree = sc.tree.as_ref().map(|t| build_taptree(t, &sc.leaf_ms).expect("tree within the depth limit assembles"));
            let b = Tr::new(key(sc.internal), tree).expect("Tr::new");
            assert!(b == tr, "Tr assembled with TapTree::combine differs from the parsed descriptor");
            assert_eq!(b.to_string(), tr.to_string(), "Tr assembled with TapTree::combine prints differently");
            b
        } else {
            tr
        };
        let fresh = Arc::new(match Descriptor::<XOnlyPublicKey>::from_str(&ex.text).unwrap() {
            Descriptor::Tr(t) => t,
            _ => unreachable!(),
        });
        let tr = Arc::new(tr);
        // a second object that shares the cached spend info (clone of a clone with a filled cache)
        let twin = Arc::new({
            let c = (*tr).clone();
            let _ = c.spend_info();
            c.clone()
        });
        // a different descriptor (used as the overwritten target of clone_from)
        let other = Arc::new(match Descriptor::<XOnlyPublicKey>::from_str(&format!("tr({},{{pk({}),pk({})}})", key(sc.internal + 77), key(sc.internal + 78), key(sc.internal + 79))).unwrap() {
            Descriptor::Tr(t) => t,
            _ => unreachable!(),
        });
        let mut hs = vec![];
        for t in 1..sc.n_threads {
            let other = other.clone();
            let tr = tr.clone();
            let ex = ex.clone();
            let sc2 = sc.clone();
            let fresh = fresh.clone();
            let twin = twin.clone();
            hs.push(thread::spawn(move || run_ops(&tr, &sc2.ops[t], &ex, &fresh, &twin, &other, t)));
        }
        run_ops(&tr, &sc.ops[0], &ex, &fresh, &twin, &other, 0);
        for h in hs {
            h.join().expect("thread panicked");
        }
        // `fresh` must still be uncached-equal after everything
        assert!(*tr == *fresh);
    })
}

fn scenario_json(sc: &Scenario, text: &str) -> Value {
    json!({"seed": sc.seed, "iter": sc.iter, "shape": sc.shape, "threads": sc.n_threads, "ops": sc.ops, "scheduler": if sc.pct {"pct(depth 3)"} else {"random"}, "built_with_combine": sc.built, "leaves": sc.tree.as_ref().map(count_leaves).unwrap_or(0), "descriptor_len": text.len(), "descriptor_head": text.chars().take(160).collect::<String>() })
}

const SCHEDULES_PER_SCENARIO: usize = 6;

/// shuttle's default continuation stack (32 KiB) is too small for 400-leaf trees
fn sim_config() -> Config {
    let mut c = Config::new();
    c.stack_size = 4 << 20;
    c
}

fn run_scenario(sc: &Scenario, dir: Option<&str>) -> Result<usize, String> {
    let f = scenario_closure(sc.clone())?;
    let mut cfg = sim_config();
    cfg.failure_persistence = match dir {
        Some(d) => FailurePersistence::File(Some(d.into())),
        None => FailurePersistence::None,
    };
    let sched_seed = mix(sc.seed ^ 0x7363, sc.iter);
    let r = catch_unwind(AssertUnwindSafe(|| {
        if sc.pct {
            Runner::new(PctScheduler::new_from_seed(sched_seed, 3, SCHEDULES_PER_SCENARIO), cfg).run(f)
        } else {
            Runner::new(RandomScheduler::new_from_seed(sched_seed, SCHEDULES_PER_SCENARIO), cfg).run(f)
        }
    }));
    match r {
        Ok(n) => Ok(n),
        Err(e) => {
            let msg = if let Some(s) = e.downcast_ref::<String>() {
                s.clone()
            } else if let Some(s) = e.downcast_ref::<&str>() {
                s.to_string()
            } else {
                "panic".into()
            };
            Err(msg)
        }
    }
}

fn root() -> String { std::env::var("VERIF_ROOT").unwrap_or_else(|_| "/verif".to_string()) }

fn main() {
    let args: Vec<String> = std::env::args().collect();
    let seed: u64 = std::env::var("VERIF_SEED").ok().and_then(|s| s.parse().ok()).unwrap_or(1);
    let arg = |n: &str| args.iter().position(|a| a == n).and_then(|i| args.get(i + 1).cloned());
    match args.get(1).map(|s| s.as_str()) {
        Some("check") => {
            let tier = arg("--tier").or_else(|| std::env::var("VERIF_TIER").ok()).unwrap_or("quick".into());
            let iters: u64 = arg("--iters").and_then(|s| s.parse().ok()).unwrap_or(if tier == "thorough" { 150_000 } else { 2_500 });
            let workers = std::thread::available_parallelism().map(|n| n.get()).unwrap_or(4);
            std::panic::set_hook(Box::new(|_| {}));
            let t0 = Instant::now();
            let next = std::sync::atomic::AtomicU64::new(0);
            let results = std::sync::Mutex::new(std::collections::BTreeMap::new());
            std::thread::scope(|s| {
                for _ in 0..workers {
                    std::thread::Builder::new().stack_size(64 << 20).spawn_scoped(s, || loop {
                        let i = next.fetch_add(1, std::sync::atomic::Ordering::SeqCst);
                        if i >= iters {
                            break;
                        }
                        let sc = gen_scenario(seed, i);
                        let r = run_scenario(&sc, None);
                        results.lock().unwrap().insert(i, (sc, r));
                    }).expect("spawn worker");
                }
            });
            let results = results.into_inner().unwrap();
            let mut executions = 0usize;
            let mut shapes: std::collections::BTreeMap<String, u64> = Default::default();
            let mut distinct: std::collections::BTreeSet<u64> = Default::default();
            let mut op_counts = vec![0u64; OPS as usize];
            let mut samples = vec![];
            let mut max_depth = 0u8;
            let mut exit = 0;
            let mut n_viol = 0;
            for (i, (sc, r)) in &results {
                *shapes.entry(sc.shape.to_string()).or_insert(0) += 1;
                for t in &sc.ops {
                    for o in t {
                        op_counts[*o as usize] += 1;
                    }
                }
                let ex = expect_of(sc);
                if let Ok(ex) = &ex {
                    let d = ex.reference.leaves.iter().map(|l| l.depth).max().unwrap_or(0);
                    max_depth = max_depth.max(d);
                    let mut h = mix(sc.n_threads as u64, d as u64);
                    for l in &ex.reference.leaves {
                        h = mix(h, l.depth as u64);
                    }
                    for t in &sc.ops {
                        for o in t {
                            h = mix(h, *o as u64);
                        }
                        h = mix(h, 0xff);
                    }
                    if ex.reference.leaves.len() >= 2 {
                        distinct.insert(h);
                    }
                    if samples.len() < 3 {
                        samples.push(scenario_json(sc, &ex.text));
                    }
                }
                match r {
                    Ok(n) => executions += n,
                    Err(msg) => {
                        n_viol += 1;
                        if n_viol > 3 {
                            continue;
                        }
                        // re-run with schedule persistence to get a replayable schedule file
                        let dir = format!("{}/replays/C15-{}-{}", root(), seed, i);
                        let _ = std::fs::create_dir_all(&dir);
                        let _ = run_scenario(sc, Some(&dir));
                        let sched = std::fs::read_dir(&dir).ok().and_then(|mut d| d.next()).and_then(|e| e.ok()).map(|e| e.path().display().to_string());
                        let path = format!("{}/replays/C15-{}-{}.json", root(), seed, i);
                        let j = json!({"property": "C15", "engine": "trsim", "seed": seed, "iter": i, "schedule_file": sched, "violation": msg,
                            "scenario": ex.as_ref().ok().map(|e| scenario_json(sc, &e.text))});
                        let _ = std::fs::write(&path, serde_json::to_string_pretty(&j).unwrap());
                        println!("violation: property=C15 iter={} shape={} : {}", i, sc.shape, msg.lines().next().unwrap_or(""));
                        // confirm the replay reproduces before reporting
                        let confirmed = replay(&path).is_err();
                        if confirmed {
                            println!("VIOLATION property=C15 replay={}", path);
                            exit = 1;
                        } else {
                            println!("HARNESS-ERROR: violation did not replay");
                            if exit == 0 {
                                exit = 2;
                            }
                        }
                    }
                }
            }
            let wall = t0.elapsed().as_secs_f64();
            let ev = json!({
                "property_id": "C15", "tier": tier, "seed": seed, "level": "exploration",
                "coverage": {
                    "evaluations": executions,
                    "distinct_nontrivial": distinct.len(),
                    "rule": "one evaluation = one controlled execution (one schedule) of one scenario: a Tr descriptor built from an explicit binary tree, shared in an Arc between 2-4 shuttle threads each running 2-6 operations (spend_info, script_pubkey, address, leaves, clone, eq/cmp/hash vs uncached copy, identity and renaming translate_pk, print+re-parse, drop), every observation compared with an independent BIP341 reference. distinct = distinct (tree depth profile x thread count x op lists); non-trivial = tree has at least 2 leaves.",
                    "samples": samples,
                    "scenarios": results.len(),
                    "schedules_per_scenario": SCHEDULES_PER_SCENARIO,
                    "schedulers": "even iterations: shuttle RandomScheduler (seeded), odd iterations: PctScheduler depth 3 (seeded); thread::sleep(0) injected between operations as yield point",
                    "runs_per_hour": if wall > 0.0 { (executions as f64 / wall * 3600.0) as u64 } else { 0 },
                    "tree_shapes": shapes,
                    "max_leaf_depth_reached": max_depth,
                    "operations_executed_by_kind": {"spend_info": op_counts[0], "script_pubkey": op_counts[1], "address": op_counts[2], "leaves": op_counts[3], "clone": op_counts[4], "eq_cmp_hash": op_counts[5], "translate_identity": op_counts[6], "translate_rename": op_counts[7], "print_parse": op_counts[8], "clone_drop": op_counts[9], "eq_self_and_cached_clone": op_counts[10], "eq_twin_opposite_orders": op_counts[11], "cmp_hash_twin_opposite_orders": op_counts[12], "clone_from_into_warm_object": op_counts[13]},
                    "faults": "schedule interleavings only (the library has no I/O); deadlock and lock poisoning are reported by shuttle as failures",
                    "components": {"real_code": ["miniscript Tr / TapTree / TrSpendInfo with its cache Mutex replaced by shuttle::sync::Mutex (hook H1)"], "stubs": ["BIP341 reference (R4) computed outside the execution", "thread scheduler (shuttle)"]}
                },
                "assumptions": ["shuttle's Mutex models std::sync::Mutex faithfully", "secp256k1 tweak arithmetic and sha256 are correct", "leaf script encoding (Miniscript::encode) is taken from the library; C15 is about the commitment structure"],
                "wall_s": wall, "violations": n_viol
            });
            let _ = std::fs::create_dir_all(format!("{}/evidence", root()));
            let _ = std::fs::write(format!("{}/evidence/C15.json", root()), serde_json::to_string_pretty(&ev).unwrap());
            println!("C15: {} scenarios, {} controlled executions, {} distinct non-trivial, max depth {}, {:.1}s, exit {}", results.len(), executions, distinct.len(), max_depth, wall, exit);
            std::process::exit(exit);
        }
        Some("replay") => {
            let path = args.get(2).cloned().unwrap_or_default();
            match replay(&path) {
                Err(msg) => {
                    println!("replayed: {}", msg.lines().next().unwrap_or(""));
                    println!("VIOLATION property=C15 replay={}", path);
                    std::process::exit(1);
                }
                Ok(()) => {
                    println!("replay produced no violation");
                    std::process::exit(0);
                }
            }
        }
        _ => {
            eprintln!("usage: trsim check [--tier quick|thorough] [--iters N] | trsim replay <file>");
            std::process::exit(2);
        }
    }
}

fn replay(path: &str) -> Result<(), String> {
    let s = std::fs::read_to_string(path).map_err(|e| e.to_string()).unwrap_or_default();
    let v: Value = serde_json::from_str(&s).unwrap_or(Value::Null);
    let seed = v["seed"].as_u64().unwrap_or(1);
    let iter = v["iter"].as_u64().unwrap_or(0);
    let sc = gen_scenario(seed, iter);
    let f = match scenario_closure(sc.clone()) {
        Ok(f) => f,
        Err(e) => return Err(e),
    };
    let r = match v["schedule_file"].as_str() {
        Some(sf) if std::path::Path::new(sf).exists() => catch_unwind(AssertUnwindSafe(|| {
            let sched = ReplayScheduler::new_from_file(sf).expect("schedule file");
            Runner::new(sched, sim_config()).run(f);
        })),
        _ => {
            // no schedule recorded (the failure did not depend on it): re-run the seeded schedulers
            return run_scenario(&sc, None).map(|_| ());
        }
    };
    match r {
        Ok(()) => Ok(()),
        Err(e) => Err(e.downcast_ref::<String>().cloned().or_else(|| e.downcast_ref::<&str>().map(|s| s.to_string())).unwrap_or("panic".into())),
    }
}
